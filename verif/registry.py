"""registry — which rules decide which property (and with what configuration)."""
from rules import codec, writer, iterator, writer_abs, sizes, flow, derive, closing

RULES = {
    "R-PANIC-VINT": codec.r_panic_vint,
    "R-VINT-DECODE": codec.r_vint_decode,
    "R-VINT-ENCODE": codec.r_vint_encode,
    "R-ISVINT": codec.r_isvint,
    "R-PANIC-PAYLOAD": codec.r_panic_payload,
    "R-DEC-CLASS": codec.r_dec_class,
    "R-VINT-RANGE": codec.r_vint_range,
    "R-DEC-RANGE": codec.r_dec_range,
    "R-DEST-OWNER": writer.r_dest_owner,
    "R-FLUSH-GUARD": writer_abs.r_flush_sem,
    "R-FLUSH-API": writer.r_flush_api,
    "R-SHARED-MATCHER": writer.r_shared_matcher,
    "R-WRITER-VALIDATES": writer_abs.r_writer_validates,
    "R-WIDTH-TABLE": writer_abs.r_width_table,
    "R-DEPRECATED-EQ": writer_abs.r_deprecated_eq,
    "R-FULL-EQ": writer_abs.r_full_eq,
    "R-ATOMIC": writer_abs.r_atomic,
    "R-SIZE-TABLE": sizes.r_size_table,
    "R-UNKNOWN-MARKER": sizes.r_unknown_marker,
    "R-CODEC-PAIR": sizes.r_codec_pair,
    "R-PAYLOAD-WIDTH": sizes.r_payload_width,
    "R-SPEC-CONSIST": iterator.r_spec_consist,
    "R-PANIC-ITER": iterator.r_iter_panic,
    "R-STALE": iterator.r_stale,
    "R-READ-NONEMPTY": iterator.r_read_nonempty,
    "R-EOF-GENUINE": iterator.r_eof_genuine,
    "R-LIMIT": iterator.r_alloc,
    "R-IOERR": iterator.r_ioerr,
    "L-ADVANCE": iterator.r_advance,
    "R-RECOVER": iterator.r_recover,
    "R-TOL": iterator.r_tol,
    "R-TOL-DEFAULT": iterator.r_tol_default,
    "R-TOL-STRICT": iterator.r_tol_strict,
    "R-OFFSET": flow.r_offset,
    "R-OFFSET-BOOK": flow.r_offset_book,
    "R-TILE": flow.r_tile,
    "R-STACK-END": flow.r_stack_end,
    "R-CLOSE": flow.r_eof_flag,
    "R-CLOSE-EMITS": flow.r_close_emits,
    "R-OVERRUN-ALL": flow.r_overrun_all,
    "L-BUFFER-PROGRESS": flow.r_buffer_progress,
    "R-RECOVER-STRETCH": flow.r_recover_stretch,
    "R-ENDED-BY-TABLE": closing.r_ended_by_table,
    "R-CLOSE-UNKNOWN-ONLY": closing.r_close_unknown_only,
    "R-MATCHER-TABLE": closing.r_matcher_table,
    "R-MATCHER-TABLE/rejects": closing.r_matcher_table_rejects,
    "R-DERIVE-EXPANSION": derive.r_derive_expansion,
    "R-DERIVE-REJECTS": derive.r_derive_rejects,
}

PROPERTIES = {
    "C18": {
        "rules": ["R-DERIVE-EXPANSION", "R-DERIVE-REJECTS", "R-SPEC-CONSIST"],
        "level": "translation_validation",
        "explanation": "Translation validation of the macro expansion over a declaration corpus (fixed + seeded, both front-ends): the generated "
                       "enum and trait methods are read as finite tables from their MIR by abstract evaluation per id class / variant and compared "
                       "with the meaning computed from the declaration alone (never executed); one compile-fail witness with a compiling twin per "
                       "rejection class; R-SPEC-CONSIST ties the tables to the library's 'bad specification' panics.  Not decided: declarations "
                       "outside the corpus (the generator's own source is not analysed).",
    },
    "C03": {
        "rules": ["R-OFFSET-BOOK", "R-TILE", "R-OFFSET", "R-DEC-CLASS", "R-DEC-RANGE"],
        "level": "other",
        "explanation": "Abstract interpretation with ghost variables of the buffer bookkeeping (buffer[i] always holds stream byte buffer_offset+i; the "
                       "cursor's stream offset survives compaction) and of read_tag (id parsed at the cursor, size right after it, header advances by "
                       "id length + size length, payload by exactly the declared size, tag_start/data_start = cursor before/after the header), plus "
                       "value-flow of the (tag, offset) pairs into the queue (an End/Full item reports its master's own tag_start, implied ancestors 0) "
                       "and the payload decoders' length classes.  Not decided: that the decoded number/string equals the bytes' value.",
    },
    "C06": {
        "rules": ["R-STACK-END", "R-CLOSE", "R-OVERRUN-ALL", "R-SHARED-MATCHER", "R-TOL-STRICT", "R-CLOSE-UNKNOWN-ONLY", "R-MATCHER-TABLE/rejects", "R-CLOSE-EMITS"],
        "level": "other",
        "explanation": "Typestate/value-flow rules over read_next and header validation: only End-form tags are stored on the open-master stack; the "
                       "stack shrinks only at the three closing sites (exhausted known-size masters drained innermost-first before the next header, "
                       "unknown-size masters popped in a loop decided by is_ended_by, everything closed innermost-first at end of input under the "
                       "EOF switch); the overrun test scans every ancestor; the hierarchy matcher is the single shared one; in strict mode no "
                       "corruption kind is tolerated (R-TOL-STRICT: row mask 0 of the tolerance table); the matcher's class table read for the classes whose prescribed answer is 'reject' (R-MATCHER-TABLE: a wrongly rejected chain is an error, not an invalid emitted sequence), every master removed from the stack reaches the emission queue on every path to the return of read_next (R-CLOSE-EMITS), and "
                       "that only unknown-size masters are ever closed by an element (R-CLOSE-UNKNOWN-ONLY).  Not decided: well-nestedness of the "
                       "emitted sequence as such.",
    },
    "C01": {
        "rules": ["R-SIZE-TABLE", "R-UNKNOWN-MARKER", "R-CODEC-PAIR", "R-PAYLOAD-WIDTH"],
        "level": "other",
        "explanation": "Abstract interpretation per value class: the reader's reserved-size table vs the writer's size encoders (a known size is never "
                       "emitted as the reserved pattern of its width), the unknown-size marker constant decoded by the checker and classified by the "
                       "reader's own function, exhaustive and correctly paired per-type codecs on both sides, and declared payload width = bytes appended "
                       "= minimal width.  Equality of the tag sequence after a round trip is not decided.",
    },
    "C07": {
        "rules": ["R-UNKNOWN-MARKER", "R-ENDED-BY-TABLE", "R-CLOSE-UNKNOWN-ONLY", "R-CLOSE"],
        "level": "other",
        "explanation": "The marker clause (what start_unknown_size_tag emits is in the reader's reserved table for that width, and the master is "
                       "recorded as Unknown); the closing predicate decided per class of declared paths by abstract interpretation (an ancestor at any "
                       "position of a path of any length, a sibling, a root element close the master; an unrelated element, a global element and an "
                       "unspecified id do not); the predicate is only ever consulted for unknown-size masters (matcher and read_next, with every open "
                       "master known-size, never ask it); and the shape of the three closing sites of read_next (all exhausted known-size masters "
                       "before the next header, unknown-size masters popped one by one while the predicate says so, everything at end of input under "
                       "its switch).  Not decided: that the same tag sequence results for every choice of encodings.",
    },
    "C13": {
        "rules": ["R-TOL", "R-TOL-DEFAULT", "R-CLOSE-UNKNOWN-ONLY"],
        "level": "other",
        "explanation": "Abstract interpretation of header validation for each of the 8 tolerance masks (bit values themselves derived by abstract "
                       "evaluation of allow_errors): which corruption kinds are constructible per mask, that the size limit and data checks never depend "
                       "on a mask, that strict mode accepts no untyped header; plus who-may-write for the settings and their constructor defaults.  "
                       "A known-size master is never treated as closed by the element that follows (R-CLOSE-UNKNOWN-ONLY), so an element outside its "
                       "allowed parents cannot slip through as 'closing' one.  'Strict items are a prefix of tolerant items' is not decided.",
    },
    "C11": {
        "rules": ["R-SHARED-MATCHER", "R-WRITER-VALIDATES", "R-CLOSE-UNKNOWN-ONLY", "R-MATCHER-TABLE"],
        "level": "other",
        "explanation": "Who-may-call check for the single shared matcher plus abstract interpretation of the writer's entries per (data type, master "
                       "form, options) class: the matcher is consulted before the first state mutation exactly for specified non-End tags, and a "
                       "negative answer yields UnexpectedTag with no mutation; the matcher itself decided per class of (declared path, chain of open "
                       "known-size masters) by abstract interpretation — exact chain, root with/without open masters, deeper, shallower, wrong parent, "
                       "wrong order, trailing and intermediate placeholders at, within and beyond their bounds, two placeholders separated by a named parent (each within / below / beyond its own bounds), a placeholder matching a master that carries the id of the following named parent (today's matcher is greedy and rejects that chain: a genuine defect listed in known_findings.json), global elements, with chain tails of "
                       "arbitrary length where the class allows — and the closing-predicate shortcut is taken for unknown-size masters only.  Not "
                       "decided: paths/chains outside these classes, and the reader/writer agreement beyond their sharing the one matcher.",
    },
    "C09": {
        "rules": ["R-FULL-EQ", "R-DEPRECATED-EQ", "R-WIDTH-TABLE", "R-DEST-OWNER", "R-FLUSH-GUARD"],
        "level": "other",
        "explanation": "Sibling-region comparison (Full arm vs Start/End arms), equal action traces of the deprecated and option-based unknown-size "
                       "entries, the width dispatch tables read off resolved const-generic instantiations per width class (masters: dispatch, stored width, width used by end_tag; elements of every data type and raw ids: with a width k only fixed-width size encoders instantiated with k are reached), and write_all-only "
                       "delivery, and the flush guard (nothing is delivered while a known-size master still waits for its size, so bytes reach the destination "
                       "in presentation-independent order).  Byte equality of two presentations as such is not decided.",
    },
    "C19": {
        "rules": ["R-ATOMIC"],
        "level": "other",
        "explanation": "Abstract interpretation of every writer entry per configuration class with ghost tracking of the two state components: on "
                       "each feasible path ending in a non-I/O error the buffer and the open-master stack are untouched or truncated back to their "
                       "entry lengths after appends only.  Nested writes inside a Full master are summarised under assumption A-REC.",
    },
    "C04": {
        "rules": ["R-STALE", "R-READ-NONEMPTY", "R-EOF-GENUINE", "R-OFFSET-BOOK"],
        "level": "proof",
        "explanation": "Abstract interpretation of next()/try_recover() from any invariant-satisfying state, for any Read implementation: every "
                       "byte the parser looks at lies below buffered_byte_length (no stale data), read() is never handed an empty slice (so Ok(0) "
                       "means end of stream), UnexpectedEOF is only returned after the source has returned Ok(0), normal termination only when additionally no "
                       "buffered byte is unparsed, and (ghost-variable analysis of ensure_data_read) buffer[i] always holds stream byte buffer_offset+i "
                       "across compaction, growth and refills.  These are the mechanisms that make the result independent of chunking and capacity; "
                       "equality of two runs as such is not decided.",
    },
    "C12": {
        "rules": ["R-STALE", "R-EOF-GENUINE", "R-CLOSE-EMITS"],
        "level": "proof",
        "explanation": "As C04 for the truncation case: nothing beyond the bytes actually delivered is parsed or reported (including partial_data), "
                       "an end-of-file error is raised only when the source is exhausted, and normal termination (closing Ends) only when no buffered byte is left unparsed.  'Exactly the complete prefix' per cut point is not decided.  "
                       "In addition a pairing rule on read_next (R-CLOSE-EMITS, value flow on MIR): every master removed from the open-master stack reaches the "
                       "emission queue, and a local container that stages removed masters is handed to the queue on every path to the return, so the Ends of "
                       "masters completed within the prefix are not lost when the element after them is incomplete.",
    },
    "C17": {
        "rules": ["R-LIMIT", "R-PANIC-ITER"],
        "level": "other",
        "explanation": "Abstract interpretation of next() with a configured limit Some(m): every allocation sized by stream data (buffer growth, to_vec, "
                       "collect) is proved <= m, or <= the existing capacity, or <= the 16-byte look-ahead; size arithmetic in header validation cannot overflow "
                       "and no declared size can reach a panic (R-PANIC-ITER). "
                       "Measured peak heap is not decided.",
    },
    "C14": {
        "rules": ["R-RECOVER", "R-RECOVER-STRETCH"],
        "level": "other",
        "explanation": "Abstract interpretation of try_recover() from any object state satisfying the buffer invariant: panic-freedom, "
                       "monotonicity of the stream offset (the distance subtraction cannot underflow) and the set of error variants it can "
                       "return; every failed look-ahead advances the scan by one byte and only end of input ends it with an error; open known-size "
                       "masters are stretched by exactly the number of bytes skipped.  Where recovery resumes is behavioural and not decided.",
    },
    "C05": {
        "rules": ["R-PANIC-ITER", "R-SPEC-CONSIST", "R-PANIC-PAYLOAD", "L-ADVANCE", "L-BUFFER-PROGRESS", "R-IOERR"],
        "level": "other",
        "explanation": "Abstract interpretation of next() and try_recover() from any object state satisfying the (inductively proved) buffer "
                       "invariant: every compiler-inserted assert, std precondition and explicit panic reachable from the public API is discharged "
                       "(or assumed under a named assumption / listed as reviewed — which is why the level is 'other', not 'proof': two obligations rest on a "
                       "reviewed argument whose premises are checked mechanically); I/O errors propagate; each accepted header consumes 2..16 bytes. "
                       "Termination, the linear bound and fusedness as such are not decided.",
    },
    "C10": {
        "rules": ["R-DEST-OWNER", "R-FLUSH-GUARD", "R-FLUSH-API"],
        "level": "other",
        "explanation": "Ownership of the destination and of buffer shrinking (who-may-access over the resolved MIR), the flush guard by abstract "
                       "interpretation of every writing entry per class of the open-master stack (all known-size / all unknown-size / mixed or empty): "
                       "at every hand-over to the destination no known-size master is open, and an element or End written while none is open is handed "
                       "over before the call returns Ok; flush completeness (full drain, write_all, result returned) and close-then-deliver for flush()/into_inner().  These are the "
                       "mechanisms the streaming guarantee rests on; 'what the destination holds parses to the tags written so far' is not decided.",
    },
    "C15": {
        "rules": ["R-PANIC-VINT", "R-VINT-DECODE", "R-VINT-ENCODE", "R-ISVINT", "R-VINT-RANGE"],
        "level": "proof",
        "explanation": "Abstract interpretation of tools.rs over a complete finite partition of the inputs (leading-byte classes x slice "
                       "lengths, widths 1-8, the 64 ilog2 classes, exact value-range classes with both boundary values): panic-freedom of "
                       "every codec function, the decoders' None/Some/Err classes and returned lengths, shortest-width selection, overflow "
                       "thresholds, the signed ranges and the id predicate's truth table are decided for all inputs.  Not decided: that "
                       "decode(encode(v)) returns v itself (value-level bijection).",
    },
    "C16": {
        "rules": ["R-PANIC-PAYLOAD", "R-DEC-CLASS", "R-DEC-RANGE", "R-PAYLOAD-WIDTH"],
        "level": "proof",
        "explanation": "Abstract interpretation of the three payload decoders per slice-length class 0..10 and >10: panic-freedom, the exact Ok/Err "
                       "length classes and Ok(0) for the empty slice are decided for all slices.  Not decided: that the returned number is "
                       "the big-endian reading of the bytes.",
    },
}
