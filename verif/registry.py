"""registry — which rules decide which property (and with what configuration)."""
from rules import codec, writer, iterator

RULES = {
    "R-PANIC-VINT": codec.r_panic_vint,
    "R-VINT-DECODE": codec.r_vint_decode,
    "R-VINT-ENCODE": codec.r_vint_encode,
    "R-ISVINT": codec.r_isvint,
    "R-PANIC-PAYLOAD": codec.r_panic_payload,
    "R-DEC-CLASS": codec.r_dec_class,
    "R-VINT-RANGE": codec.r_vint_range,
    "R-DEC-RANGE": codec.r_dec_range,
    "R-DEST-OWNER": writer.r_dest_owner,
    "R-FLUSH-GUARD": writer.r_flush_guard,
    "R-FLUSH-API": writer.r_flush_api,
    "R-SHARED-MATCHER": writer.r_shared_matcher,
    "R-SPEC-CONSIST": iterator.r_spec_consist,
    "R-PANIC-ITER": iterator.r_iter_panic,
    "R-STALE": iterator.r_stale,
    "R-READ-NONEMPTY": iterator.r_read_nonempty,
    "R-EOF-GENUINE": iterator.r_eof_genuine,
    "R-LIMIT": iterator.r_alloc,
    "L-ADVANCE": iterator.r_advance,
    "R-RECOVER": iterator.r_recover,
}

PROPERTIES = {
    "C14": {
        "rules": ["R-RECOVER"],
        "level": "proof",
        "explanation": "Abstract interpretation of try_recover() from any object state satisfying the buffer invariant: panic-freedom, "
                       "monotonicity of the stream offset (the distance subtraction cannot underflow) and the set of error variants it can "
                       "return.  Where recovery resumes (first sentence of the property) is behavioural and not decided.",
    },
    "C05": {
        "rules": ["R-PANIC-ITER", "R-SPEC-CONSIST", "R-PANIC-PAYLOAD", "L-ADVANCE"],
        "level": "proof",
        "explanation": "Abstract interpretation of next() and try_recover() from any object state satisfying the (inductively proved) buffer "
                       "invariant: every compiler-inserted assert, std precondition and explicit panic reachable from the public API is discharged "
                       "(or assumed under a named assumption / listed as reviewed); I/O errors propagate; each accepted header consumes 2..16 bytes. "
                       "Termination, the linear bound and fusedness as such are not decided.",
    },
    "C10": {
        "rules": ["R-DEST-OWNER", "R-FLUSH-GUARD", "R-FLUSH-API"],
        "level": "other",
        "explanation": "Structural rules over the resolved MIR of tag_writer.rs: ownership of the destination and of buffer shrinking (who-may-access), "
                       "the flush guard (edge dominance of private_flush by the false edge of the any(Known) scan, predicate evaluated abstractly), "
                       "flush completeness (full drain, write_all, result returned) and close-then-deliver for flush()/into_inner().  These are the "
                       "mechanisms the streaming guarantee rests on; 'what the destination holds parses to the tags written so far' is not decided.",
    },
    "C15": {
        "rules": ["R-PANIC-VINT", "R-VINT-DECODE", "R-VINT-ENCODE", "R-ISVINT", "R-VINT-RANGE"],
        "level": "proof",
        "explanation": "Abstract interpretation of tools.rs over a complete finite partition of the inputs (leading-byte classes x slice "
                       "lengths, widths 1-8, the 64 ilog2 classes, exact value-range classes with both boundary values): panic-freedom of "
                       "every codec function, the decoders' None/Some/Err classes and returned lengths, shortest-width selection, overflow "
                       "thresholds, the signed ranges and the id predicate's truth table are decided for all inputs.  Not decided: that "
                       "decode(encode(v)) returns v itself (value-level bijection).",
    },
    "C16": {
        "rules": ["R-PANIC-PAYLOAD", "R-DEC-CLASS", "R-DEC-RANGE"],
        "level": "proof",
        "explanation": "Abstract interpretation of the three payload decoders per slice-length class 0..10 and >10: panic-freedom, the exact Ok/Err "
                       "length classes and Ok(0) for the empty slice are decided for all slices.  Not decided: that the returned number is "
                       "the big-endian reading of the bytes.",
    },
}
