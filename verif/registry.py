"""registry — which rules decide which property (and with what configuration)."""
from rules import codec

RULES = {
    "R-PANIC-VINT": codec.r_panic_vint,
    "R-VINT-DECODE": codec.r_vint_decode,
    "R-VINT-ENCODE": codec.r_vint_encode,
    "R-ISVINT": codec.r_isvint,
    "R-PANIC-PAYLOAD": codec.r_panic_payload,
    "R-DEC-CLASS": codec.r_dec_class,
    "R-VINT-RANGE": codec.r_vint_range,
    "R-DEC-RANGE": codec.r_dec_range,
}

PROPERTIES = {
    "C15": {
        "rules": ["R-PANIC-VINT", "R-VINT-DECODE", "R-VINT-ENCODE", "R-ISVINT", "R-VINT-RANGE"],
        "level": "proof",
        "explanation": "Abstract interpretation of tools.rs over a complete finite partition of the inputs (leading-byte classes x slice "
                       "lengths, widths 1-8, the 64 ilog2 classes, exact value-range classes with both boundary values): panic-freedom of "
                       "every codec function, the decoders' None/Some/Err classes and returned lengths, shortest-width selection, overflow "
                       "thresholds, the signed ranges and the id predicate's truth table are decided for all inputs.  Not decided: that "
                       "decode(encode(v)) returns v itself (value-level bijection).",
    },
    "C16": {
        "rules": ["R-PANIC-PAYLOAD", "R-DEC-CLASS", "R-DEC-RANGE"],
        "level": "proof",
        "explanation": "Abstract interpretation of the three payload decoders per slice-length class 0..10 and >10: panic-freedom, the exact Ok/Err "
                       "length classes and Ok(0) for the empty slice are decided for all slices.  Not decided: that the returned number is "
                       "the big-endian reading of the bytes.",
    },
}
