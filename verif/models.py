"""models — abstract semantics of the std / trait functions the repository calls.

Every model receives an engine.Call and either appends result states through c.ret(...)
or returns NotImplemented to fall through to inlining / the default havoc.
Preconditions whose violation panics are recorded as obligations of kind PRECOND.
"""
from absval import (Arr, BOT, Bot, Closure, Enum, FnItem, Int, Iter, Ref, Struct, Top, UNIT, ISIZE_MAX, int_range, join_val, meet_val)
from absint import Infeasible, get_at, set_at, int_leaves
from lin import LinForm
import mirlib

OPTION = "std::option::Option"
RESULT = "std::result::Result"
CFLOW = "std::ops::ControlFlow"

MODELS = {}
PREFIX = []


def model(*names):
    def deco(fn):
        for n in names:
            MODELS[n] = fn
        return fn
    return deco


def prefix_model(*prefixes):
    def deco(fn):
        for p in prefixes:
            PREFIX.append((p, fn))
        return fn
    return deco


# ----------------------------------------------------------------------------
# helpers
# ----------------------------------------------------------------------------
def arr_at(c, v, st=None):
    """-> (Arr, loc) for a value that is a reference to / an inline container"""
    st = st or c.st
    if isinstance(v, Ref) and v.cell is not None:
        a = c.I.read_loc(st, (v.cell, v.path))
        if isinstance(a, Arr):
            return a, (v.cell, v.path)
        if isinstance(a, Ref):
            return arr_at(c, a, st)
        return None, None
    if isinstance(v, Arr):
        return v, None
    return None, None


def len_lin(c, arr, loc, st=None):
    st = st or c.st
    if arr is None or not isinstance(arr.len, Int):
        return Int(0, ISIZE_MAX, 64, False), None
    if arr.len.is_const():
        return arr.len, LinForm.constant(arr.len.lo)
    if loc is not None:
        return arr.len, LinForm.var((loc[0], loc[1] + ("len",)))
    return arr.len, None


def usize(lo=0, hi=ISIZE_MAX):
    if lo == hi:
        return Int.const(lo, 64, False)
    return Int(lo, hi, 64, False)


def set_len(c, st, loc, new_len, lin=None):
    """strong update of the len leaf of the container at loc"""
    lloc = (loc[0], loc[1] + ("len",))
    if lin is not None and lin.terms.get(lloc) == 1 and len(lin.terms) >= 1:
        # invertible update  len := len + delta : rewrite every constraint over the old value (old = new - delta)
        delta = lin - LinForm.var(lloc)
        if lloc not in delta.terms:
            repl = LinForm.var(lloc) - delta
            cons = st.cons
            new_le = [x.subst(lloc, repl) if lloc in x.terms else x for x in cons.le]
            new_eq = [x.subst(lloc, repl) if lloc in x.terms else x for x in cons.eq]
            from lin import Cons
            nc = Cons()
            for x in new_le:
                nc.add_le(x)
            for x in new_eq:
                nc.add_eq(x)
            st.cons = nc
            st.defs = {k: d for k, d in st.defs.items() if k != lloc and not any(v == lloc for v in _defvars_of(d))}
            st.kill_guards(lloc[0], lloc[1])
            st.set_leaf(lloc, new_len)
            return
    c.I.write_loc(st, lloc, new_len, lin)


def _defvars_of(d):
    out = []
    for x in d[1:]:
        if isinstance(x, LinForm):
            out.extend(x.terms.keys())
        elif isinstance(x, tuple) and len(x) == 2 and isinstance(x[1], tuple) and isinstance(x[0], tuple):
            out.append(x)
    return out


def weak_elem(c, st, loc, v):
    a = c.I.read_loc(st, loc)
    if isinstance(a, Arr):
        elem = join_val(a.elem, v)
        cells = {k: join_val(x, v) for k, x in a.cells.items()}
        cell, path = loc
        # replace without killing the len leaf's relations
        na = Arr(a.len, elem, cells, a.container, a.view_of)
        st.cells[cell] = set_at(st.cells[cell], path, na)


def new_tmp(c, st, val, tag):
    cell = c.tmp_cell(tag)
    st.kill_cell(cell)
    st.cells[cell] = val
    return cell


def opt_none():
    return Enum(OPTION, {0: ()})


def opt_some(v):
    return Enum(OPTION, {1: (v,)})


def res_ok(v):
    return Enum(RESULT, {0: (v,)})


def res_err(v):
    return Enum(RESULT, {1: (v,)})


def enum_cases(v, path, n=2):
    """-> dict idx -> payload tuple for an enum-valued abstract value (⊤ -> every variant with ⊤ payload)"""
    if isinstance(v, Enum):
        return dict(v.variants)
    return None


def range_parts(c, rv, length, len_l):
    """decode a Range* struct value -> (start Int, start lin, end Int, end lin) or None"""
    if not isinstance(rv, Struct):
        return None
    p = rv.path
    z = Int.const(0, 64, False)
    if p == "std::ops::RangeFull":
        return z, LinForm.constant(0), length, len_l
    return p


def get_range(c, idx, idx_loc, arr, aloc, st):
    """-> (start, start_lin, end, end_lin) for range-typed index value"""
    length, len_l = len_lin(c, arr, aloc, st)
    z = Int.const(0, 64, False)
    if not isinstance(idx, Struct):
        return None
    p = idx.path

    def fld(i):
        v = idx.fields[i]
        l = None
        if isinstance(v, Int):
            if v.is_const():
                l = LinForm.constant(v.lo)
            elif idx_loc is not None:
                l = LinForm.var((idx_loc[0], idx_loc[1] + (i,)))
        return v, l
    if p == "std::ops::RangeFull":
        return z, LinForm.constant(0), length, len_l
    if p == "std::ops::RangeFrom":
        s, sl = fld(0)
        return s, sl, length, len_l
    if p == "std::ops::RangeTo":
        e, el = fld(0)
        return z, LinForm.constant(0), e, el
    if p == "std::ops::Range":
        s, sl = fld(0)
        e, el = fld(1)
        return s, sl, e, el
    return None


def prove_le(st, la, lb, a=None, b=None):
    """a <= b ?"""
    if la is not None and lb is not None:
        return st.entails_le(la - lb)
    if a is not None and b is not None and isinstance(a, Int) and isinstance(b, Int):
        return a.hi <= b.lo
    return False


# ----------------------------------------------------------------------------
# slices, arrays, Vec, VecDeque
# ----------------------------------------------------------------------------
@model("core::slice::len", "std::vec::Vec::len", "std::collections::VecDeque::len", "core::str::len", "std::string::String::len")
def m_len(c):
    v, _ = c.arg(0)
    arr, loc = arr_at(c, v)
    ln, l = len_lin(c, arr, loc)
    c.ret(ln, l)


@model("core::slice::is_empty", "std::vec::Vec::is_empty", "std::collections::VecDeque::is_empty", "core::str::is_empty")
def m_is_empty(c):
    v, _ = c.arg(0)
    arr, loc = arr_at(c, v)
    ln, l = len_lin(c, arr, loc)
    if ln.is_const():
        c.ret(Int.const(1 if ln.lo == 0 else 0, 1, False))
    elif ln.lo > 0 or (l is not None and c.st.entails_le(LinForm.constant(1) - l)):
        c.ret(Int.const(0, 1, False))
    else:
        c.ret(Int.boolean(), defn=("cmp", "Eq", l, LinForm.constant(0)) if l is not None else None)


@model("std::ops::Deref::deref", "std::ops::DerefMut::deref_mut", "core::str::as_bytes", "std::vec::Vec::as_slice",
       "std::vec::Vec::as_mut_slice", "std::string::String::as_str", "std::string::String::as_bytes", "std::borrow::Borrow::borrow",
       "std::convert::AsRef::as_ref", "std::iter::Iterator::by_ref", "std::hint::must_use", "std::vec::Drain::as_slice")
def m_identity(c):
    v, loc = c.arg(0)
    if c.name.endswith("Drain::as_slice"):
        # &Drain -> &[T]: the drain iterator value holds rem/elem
        it, iloc = c.deref(v)
        if isinstance(it, Iter):
            cell = new_tmp(c, c.st, Arr(it.remaining if isinstance(it.remaining, Int) else usize(), it.elem if it.elem is not None else Top()), "drainslice")
            if iloc is not None and isinstance(it.remaining, Int) and not it.remaining.is_const():
                c.st.cons.add_eq(LinForm.var((cell, ("len",))) - LinForm.var((iloc[0], iloc[1] + ("rem",))))
            c.ret(Ref(cell, ()))
            return
        c.ret_top()
        return
    if c.name.endswith("by_ref"):
        c.ret(v)
        return
    if isinstance(v, Ref):
        tgt, _ = c.deref(v)
        if isinstance(tgt, (Arr, Ref)) or c.name.endswith("must_use"):
            c.ret(v if not isinstance(tgt, Ref) else tgt)
            return
        return NotImplemented
    c.ret(v, c.I.lin_of(c.st, v, loc) if isinstance(v, Int) else None, loc if not isinstance(v, Int) else None)


@model("std::vec::Vec::new", "std::collections::VecDeque::new", "std::vec::Vec::with_capacity", "std::string::String::new",
       "std::collections::VecDeque::with_capacity")
def m_vec_new(c):
    cont = "deque" if "VecDeque" in c.name else "vec"
    c.ret(Arr(Int.const(0, 64, False), BOT, None, cont))


@model("std::vec::from_elem")
def m_from_elem(c):
    v, _ = c.arg(0)
    n, nl = c.arg_int(1)
    c.ret(Arr(n if n is not None else usize(), v, None, "vec"), extras=((("len",), nl),))


@model("std::vec::Vec::into_boxed_slice")
def m_into_boxed(c):
    v, loc = c.arg(0)
    arr, aloc = arr_at(c, v)
    if arr is None:
        c.ret_top()
        return
    ln, l = len_lin(c, arr, aloc or loc)
    c.ret(Arr(arr.len, arr.elem, arr.cells, "box"), extras=((("len",), l),))


@model("std::slice::to_vec", "<std::vec::Vec<T> as std::convert::From<&[T]>>::from", "std::borrow::ToOwned::to_owned",
       "<std::vec::Vec<T> as std::convert::From<&[T]>>::from")
def m_to_vec(c):
    v, _ = c.arg(0)
    arr, loc = arr_at(c, v)
    if arr is None:
        c.ret_top()
        return
    ln, l = len_lin(c, arr, loc)
    c.emit_alloc = True
    c.I.emit("alloc", call=c, size=ln, size_lin=l, what=c.name)
    c.ret(Arr(ln, arr.elem, arr.cells, "vec"), extras=((("len",), l),))


def _vec_arg(c, i=0, st=None):
    v, _ = c.arg(i, st)
    arr, loc = arr_at(c, v, st)
    return arr, loc


@model("std::vec::Vec::push", "std::collections::VecDeque::push_back", "std::collections::VecDeque::push_front", "std::string::String::push")
def m_push(c):
    arr, loc = _vec_arg(c)
    v, _ = c.arg(1)
    c.I.emit("mutate", call=c, loc=loc, op="push", value=v)
    if arr is None or loc is None:
        c.ret(UNIT)
        return
    ln, l = len_lin(c, arr, loc)
    weak_elem(c, c.st, loc, v)
    new = usize(min(ln.lo + 1, ISIZE_MAX), min(ln.hi + 1, ISIZE_MAX))
    set_len(c, c.st, loc, new, (l + 1) if l is not None else None)
    c.ret(UNIT)


@model("std::vec::Vec::pop", "std::collections::VecDeque::pop_front", "std::collections::VecDeque::pop_back")
def m_pop(c):
    arr, loc = _vec_arg(c)
    c.I.emit("mutate", call=c, loc=loc, op="pop")
    if arr is None or loc is None:
        c.ret_top()
        return
    ln, l = len_lin(c, arr, loc)
    if ln.lo <= 0:
        s0 = c.fork()
        try:
            if l is not None and not l.is_const():
                s0.add_eq(l)
            c.ret(opt_none(), st=s0)
        except Infeasible:
            pass
    if ln.hi >= 1:
        s1 = c.st
        try:
            if l is not None and not l.is_const():
                s1.add_le(LinForm.constant(1) - l)
            a1, _ = arr_at(c, c.arg(0, s1)[0], s1)
            ln1, l1 = len_lin(c, a1, loc, s1)
            set_len(c, s1, loc, usize(max(ln1.lo - 1, 0), max(ln1.hi - 1, 0)), (l1 - 1) if l1 is not None else None)
            c.ret(opt_some(arr.elem if not arr.elem.is_bot() else Top()), st=s1)
        except Infeasible:
            pass


@model("std::vec::Vec::truncate", "std::collections::VecDeque::truncate")
def m_truncate(c):
    arr, loc = _vec_arg(c)
    n, nl = c.arg_int(1)
    c.I.emit("mutate", call=c, loc=loc, op="truncate", n=n, n_lin=nl)
    if arr is None or loc is None or n is None:
        c.ret(UNIT)
        return
    ln, l = len_lin(c, arr, loc)
    if prove_le(c.st, nl, l, n, ln):
        set_len(c, c.st, loc, n, nl)
    elif prove_le(c.st, l, nl, ln, n):
        pass
    else:
        set_len(c, c.st, loc, usize(min(ln.lo, n.lo), min(ln.hi, n.hi)))
    c.ret(UNIT)


@model("std::vec::Vec::clear", "std::collections::VecDeque::clear")
def m_clear(c):
    arr, loc = _vec_arg(c)
    c.I.emit("mutate", call=c, loc=loc, op="clear")
    if loc is not None:
        set_len(c, c.st, loc, Int.const(0, 64, False))
    c.ret(UNIT)


@model("std::vec::Vec::resize")
def m_resize(c):
    arr, loc = _vec_arg(c)
    n, nl = c.arg_int(1)
    v, _ = c.arg(2)
    c.I.emit("alloc", call=c, size=n, size_lin=nl, what=c.name)
    if arr is not None and loc is not None and n is not None:
        weak_elem(c, c.st, loc, v)
        set_len(c, c.st, loc, n, nl)
    c.ret(UNIT)


@model("std::vec::Vec::extend_from_slice")
def m_extend_from_slice(c):
    arr, loc = _vec_arg(c)
    sv, _ = c.arg(1)
    sarr, sloc = arr_at(c, sv)
    c.I.emit("mutate", call=c, loc=loc, op="append", slice=sarr)
    if arr is None or loc is None:
        c.ret(UNIT)
        return
    ln, l = len_lin(c, arr, loc)
    sl, sll = len_lin(c, sarr, sloc)
    weak_elem(c, c.st, loc, sarr.elem if sarr is not None else Top())
    new = usize(min(ln.lo + sl.lo, ISIZE_MAX), min(ln.hi + sl.hi, ISIZE_MAX))
    set_len(c, c.st, loc, new, (l + sll) if (l is not None and sll is not None and ln.hi + sl.hi <= ISIZE_MAX) else None)
    if l is not None and not (l is not None and sll is not None and ln.hi + sl.hi <= ISIZE_MAX):
        pass
    c.ret(UNIT)


@model("std::iter::Extend::extend")
def m_extend(c):
    arr, loc = _vec_arg(c)
    itv, iloc = c.arg(1)
    c.I.emit("mutate", call=c, loc=loc, op="append", iter=itv)
    if arr is None or loc is None:
        c.ret(UNIT)
        return
    rem, reml, elem = iter_remaining(c, itv, iloc)
    ln, l = len_lin(c, arr, loc)
    weak_elem(c, c.st, loc, elem if elem is not None else Top())
    new = usize(min(ln.lo + rem.lo, ISIZE_MAX), min(ln.hi + rem.hi, ISIZE_MAX))
    lin = (l + reml) if (l is not None and reml is not None and ln.hi + rem.hi <= ISIZE_MAX) else None
    set_len(c, c.st, loc, new, lin)
    if lin is None and l is not None and not l.is_const():
        # at least monotone: new_len >= old_len is lost with the kill; re-add through a saved copy is not possible here
        pass
    c.ret(UNIT)


def iter_remaining(c, itv, iloc):
    """(remaining Int, lin, elem) of an iterator-like value"""
    if isinstance(itv, Iter):
        if itv.ikind == "range":
            return usize(), None, usize()
        rem = itv.remaining if isinstance(itv.remaining, Int) else usize()
        l = None
        if rem.is_const():
            l = LinForm.constant(rem.lo)
        elif iloc is not None:
            l = LinForm.var((iloc[0], iloc[1] + ("rem",)))
        return rem, l, itv.elem
    arr, loc = arr_at(c, itv)
    if arr is not None:
        ln, l = len_lin(c, arr, loc)
        return ln, l, arr.elem
    return usize(), None, None


@model("std::vec::Vec::drain", "std::collections::VecDeque::drain")
def m_drain(c):
    arr, loc = _vec_arg(c)
    rv, rloc = c.arg(1)
    c.I.emit("mutate", call=c, loc=loc, op="drain", range=rv)
    if arr is None or loc is None:
        c.ret_top()
        return
    r = get_range(c, rv, rloc, arr, loc, c.st)
    ln, l = len_lin(c, arr, loc)
    if r is None:
        set_len(c, c.st, loc, usize(0, ln.hi))
        c.ret(Iter("slice", usize(0, ln.hi), arr.elem, extra="val"))
        return
    s, sl, e, el = r
    c.oblige("PRECOND", "drain range within bounds", prove_le(c.st, sl, el, s, e) and prove_le(c.st, el, l, e, ln))
    cnt = usize(max(e.lo - s.hi, 0), max(e.hi - s.lo, 0))
    cl = (el - sl) if (el is not None and sl is not None) else None
    # the removed range is start..end; remaining len = len - (end - start)
    newl = (l - cl) if (l is not None and cl is not None) else None
    # the number of drained items is stated in terms of the old length: recorded before the length is overwritten
    c.ret(Iter("slice", cnt, arr.elem, extra="val"), extras=((("rem",), cl),))
    set_len(c, c.st, loc, usize(max(ln.lo - cnt.hi, 0), max(ln.hi - cnt.lo, 0)), newl)


@model("std::vec::Vec::splice")
def m_splice(c):
    arr, loc = _vec_arg(c)
    rv, rloc = c.arg(1)
    itv, iloc = c.arg(2)
    c.I.emit("mutate", call=c, loc=loc, op="splice")
    if arr is not None and loc is not None:
        rem, reml, elem = iter_remaining(c, itv, iloc)
        ln, l = len_lin(c, arr, loc)
        r = get_range(c, rv, rloc, arr, loc, c.st)
        if r is not None:
            s, sl, e, el = r
            c.oblige("PRECOND", "splice range within bounds", prove_le(c.st, sl, el, s, e) and prove_le(c.st, el, l, e, ln))
        weak_elem(c, c.st, loc, elem if elem is not None else Top())
        set_len(c, c.st, loc, usize(0, min(ln.hi + rem.hi, ISIZE_MAX)))
    c.ret(Top())


@model("std::collections::VecDeque::split_off", "std::vec::Vec::split_off")
def m_split_off(c):
    arr, loc = _vec_arg(c)
    n, nl = c.arg_int(1)
    c.I.emit("mutate", call=c, loc=loc, op="split_off")
    if arr is None or loc is None or n is None:
        c.ret_top()
        return
    ln, l = len_lin(c, arr, loc)
    c.oblige("PRECOND", "split_off: at <= len", prove_le(c.st, nl, l, n, ln))
    tail = usize(max(ln.lo - n.hi, 0), max(ln.hi - n.lo, 0))
    tl = (l - nl) if (l is not None and nl is not None) else None
    inb = prove_le(c.st, nl, l, n, ln)
    # the tail's length is stated in terms of the *old* length, so it is recorded before the container's length is overwritten
    c.ret(Arr(tail, arr.elem, None, arr.container), extras=((("len",), tl),))
    set_len(c, c.st, loc, usize(min(n.lo, ln.hi), min(n.hi, ln.hi)), nl if inb else None)


def through_equalities(st, form):
    """[form] plus the same fact restated through each 2/3-term equality that defines one of its variables (x == y + k): a fact about a
    temporary (`marker + 1` held in a temp) is then also recorded about the variables it was computed from, and survives the temp"""
    out = [form]
    for v, cv in list(form.terms.items()):
        for e in st.cons.eq:
            ce = e.terms.get(v)
            if ce in (1, -1) and 2 <= len(e.terms) <= 3:
                # v = -(e - ce*v)/ce
                rest = e - LinForm({v: ce}, 0)
                repl = rest.scale(-1) if ce == 1 else rest
                f2 = form.subst(v, repl)
                if f2 not in out and not f2.is_const():
                    out.append(f2)
    return out[:4]


def _get_range(c, arr, loc):
    """slice.get(range) -> Option<&[T]>: Some(view) exactly when start <= end <= len"""
    idx, iloc = c.arg(1)
    r = get_range(c, idx, iloc, arr, loc, c.st)
    if r is None:
        c.ret_top()
        return
    s, sl, e, el = r
    ln, l = len_lin(c, arr, loc)
    c.I.emit("index", call=c, arr_loc=loc, index=(s, e), index_lin=(sl, el), st=c.st, kind="range")
    inside = prove_le(c.st, sl, el, s, e) and prove_le(c.st, el, l, e, ln)
    outside = (s.lo > e.hi) or (e.lo > ln.hi) or (el is not None and l is not None and c.st.entails_le(l - el + 1))
    if not inside:
        s0 = c.fork()
        try:
            # start <= end holds for every range written as `..n` / `a..` with a <= len checked elsewhere; record end > len when it is the only way out
            if el is not None and l is not None and prove_le(s0, sl, el, s, e):
                for f in through_equalities(s0, l - el + 1):
                    s0.add_le(f)
            c.ret(opt_none(), st=s0)
        except Infeasible:
            pass
    if not outside:
        s1 = c.st
        try:
            if sl is not None and el is not None:
                s1.add_le(sl - el)
            if el is not None and l is not None:
                for f in through_equalities(s1, el - l):
                    s1.add_le(f)
            vl = (el - sl) if (el is not None and sl is not None) else None
            lo, hi = max(e.lo - s.hi, 0), max(min(e.hi, ln.hi) - s.lo, 0)
            if vl is not None:
                b = s1.lin_bounds(vl)
                if b[0] is not None:
                    lo = max(lo, b[0])
                if b[1] is not None:
                    hi = min(hi, b[1])
            cells = {}
            if s.is_const():
                for k, x in (arr.cells or {}).items():
                    if k >= s.lo and (not e.is_const() or k < e.lo):
                        cells[k - s.lo] = x
            view = Arr(usize(lo, max(hi, lo)), arr.elem, cells, "slice")
            cell = new_tmp(c, s1, view, "getview")
            c.ret(opt_some(Ref(cell, ())), st=s1)
            if vl is not None and lo != hi:
                try:
                    s1.cons.add_eq(LinForm.var((cell, ("len",))) - vl)
                except Exception:
                    pass
        except Infeasible:
            pass


@model("std::collections::VecDeque::get", "core::slice::get")
def m_get(c):
    arr, loc = _vec_arg(c)
    iv, _ = c.arg(1)
    if arr is not None and isinstance(iv, Struct) and iv.path.startswith("std::ops::Range"):
        return _get_range(c, arr, loc)
    i, il = c.arg_int(1)
    if arr is None or i is None:
        c.ret_top()
        return
    ln, l = len_lin(c, arr, loc)
    elem = arr.elem if not arr.elem.is_bot() else Top()
    if arr.cells:
        # elements known by position: the one asked for when the index is known, otherwise any of those the index may denote
        if i.is_const() and i.lo in arr.cells:
            elem = arr.cells[i.lo]
        else:
            for k, x in arr.cells.items():
                if i.lo <= k <= i.hi:
                    elem = join_val(elem, x)
    may_some = not prove_le(c.st, l, il, ln, i)
    may_none = not (il is not None and l is not None and c.st.entails_le(il - l + 1)) and not (i.hi < ln.lo)
    if may_none:
        s0 = c.fork()
        try:
            if il is not None and l is not None:
                for f in through_equalities(s0, l - il):
                    s0.add_le(f)
            c.ret(opt_none(), st=s0)
        except Infeasible:
            pass
    if may_some:
        s1 = c.st
        try:
            if il is not None and l is not None:
                for f in through_equalities(s1, il - l + 1):
                    s1.add_le(f)
            cell = new_tmp(c, s1, elem, "get")
            c.ret(opt_some(Ref(cell, ())), st=s1)
        except Infeasible:
            pass


@model("core::slice::last", "core::slice::first", "std::collections::VecDeque::back", "std::collections::VecDeque::front",
       "core::slice::last_mut", "core::slice::first_mut")
def m_last(c):
    arr, loc = _vec_arg(c)
    if arr is None:
        c.ret_top()
        return
    ln, l = len_lin(c, arr, loc)
    elem = arr.elem if not arr.elem.is_bot() else Top()
    # positional knowledge about the element asked for (first: index 0; last: index len-1 when the length is known)
    is_first = c.name.split("::")[-1] in ("first", "front", "first_mut")
    pos = 0 if is_first else (ln.lo - 1 if ln.is_const() else None)
    if pos is not None and arr.cells and pos in arr.cells and not c.name.endswith("_mut"):
        elem = arr.cells[pos]
    elif pos is None and arr.cells:
        for x in arr.cells.values():       # the last element of a container of unknown length may be any of the known ones
            elem = join_val(elem, x)
    nonempty = ln.lo >= 1 or (l is not None and c.st.entails_le(LinForm.constant(1) - l))
    if not nonempty:
        s0 = c.fork()
        try:
            if l is not None and not l.is_const():
                s0.add_eq(l)
            c.ret(opt_none(), st=s0)
        except Infeasible:
            pass
    if ln.hi >= 1:
        s1 = c.st
        try:
            if l is not None and not l.is_const():
                s1.add_le(LinForm.constant(1) - l)
            if loc is not None and pos is not None and 0 <= pos < 4096 and arr.container in ("slice", "array", "vec", "boxed"):
                # a definite position: reference to that positional cell of the container (what is learnt about it stays with the container)
                p = loc[1] + (("c", pos),)
                c.I._materialize_cell(s1, loc[0], p)
                c.ret(opt_some(Ref(loc[0], p, c.name.endswith("_mut"))), st=s1)
            elif loc is not None and c.name.endswith("_mut"):
                # reference to the summary element of the container itself (writes through it are weak updates of the summary)
                c.ret(opt_some(Ref(loc[0], loc[1] + ("elem",), True)), st=s1)
            else:
                # shared borrow: a private copy of one element (the container cannot change while the borrow lives), so facts learnt about
                # this element (e.g. its enum variant after `is_known()`) can be recorded on it without touching the summary
                cell = new_tmp(c, s1, elem, "last")
                c.ret(opt_some(Ref(cell, ())), st=s1)
        except Infeasible:
            pass


@model("core::slice::copy_within")
def m_copy_within(c):
    arr, loc = _vec_arg(c)
    rv, rloc = c.arg(1)
    d, dl = c.arg_int(2)
    if arr is None:
        c.ret(UNIT)
        return
    ln, l = len_lin(c, arr, loc)
    r = get_range(c, rv, rloc, arr, loc, c.st)
    ok = False
    if r is not None and d is not None:
        s, sl, e, el = r
        ok = prove_le(c.st, sl, el, s, e) and prove_le(c.st, el, l, e, ln)
        if ok:
            # dest + (end - start) <= len
            if dl is not None and el is not None and sl is not None and l is not None:
                ok = c.st.entails_le(dl + el - sl - l)
            else:
                ok = d.hi + (e.hi - s.lo) <= ln.lo
    c.oblige("PRECOND", "copy_within: src range and dest within bounds", ok)
    c.I.emit("copy_within", call=c, arr_loc=loc, range=r, dest=d, dest_lin=dl)
    if loc is not None:
        a = c.I.read_loc(c.st, loc)
        if isinstance(a, Arr):
            e = a.elem
            for x in a.cells.values():
                e = join_val(e, x)
            weak_elem(c, c.st, loc, e)
    c.ret(UNIT)


def _index_common(c, mutable):
    v, _ = c.arg(0)
    arr, loc = arr_at(c, v)
    idx, iloc = c.arg(1)
    if arr is None:
        c.ret_top()
        return
    ln, l = len_lin(c, arr, loc)
    if isinstance(idx, Int):
        il = c.I.lin_of(c.st, idx, iloc)
        ok = (il is not None and l is not None and c.st.entails_le(il - l + 1)) or idx.hi < ln.lo
        c.oblige("PRECOND", "index < len", ok)
        c.I.emit("index", call=c, arr_loc=loc, index=idx, index_lin=il, st=c.st, kind="elem")
        try:
            if il is not None and l is not None:
                c.st.add_le(il - l + 1)
        except Infeasible:
            return
        if loc is None:
            cell = new_tmp(c, c.st, arr.elem, "idx")
            c.ret(Ref(cell, (), mutable))
            return
        if idx.is_const() and idx.lo < 4096:
            p = loc[1] + (("c", idx.lo),)
            c.I._materialize_cell(c.st, loc[0], p)
            c.ret(Ref(loc[0], p, mutable))
        else:
            c.ret(Ref(loc[0], loc[1] + ("elem",), mutable))
        return
    r = get_range(c, idx, iloc, arr, loc, c.st)
    if r is None:
        c.ret_top()
        return
    s, sl, e, el = r
    ok = prove_le(c.st, sl, el, s, e) and prove_le(c.st, el, l, e, ln)
    c.oblige("PRECOND", "slice range start <= end <= len", ok)
    c.I.emit("index", call=c, arr_loc=loc, index=(s, e), index_lin=(sl, el), st=c.st, kind="range")
    try:
        if sl is not None and el is not None:
            c.st.add_le(sl - el)
        if el is not None and l is not None:
            c.st.add_le(el - l)
    except Infeasible:
        return
    # recompute bounds after refinement
    vl = (el - sl) if (el is not None and sl is not None) else None
    lo, hi = max(e.lo - s.hi, 0), max(e.hi - s.lo, 0)
    if vl is not None:
        b = c.st.lin_bounds(vl)
        if b[0] is not None:
            lo = max(lo, b[0])
        if b[1] is not None:
            hi = min(hi, b[1])
    cells = {}
    if s.is_const():
        for k, x in arr.cells.items():
            if k >= s.lo:
                cells[k - s.lo] = x
    view = Arr(usize(lo, hi), arr.elem, cells, "slice", view_of=loc if mutable else None)
    cell = new_tmp(c, c.st, view, "view")
    c.ret(Ref(cell, (), mutable))
    if vl is not None and lo != hi:
        try:
            c.st.cons.add_eq(LinForm.var((cell, ("len",))) - vl)
        except Exception:
            pass


@model("std::ops::Index::index")
def m_index(c):
    return _index_common(c, False)


@model("std::ops::IndexMut::index_mut")
def m_index_mut(c):
    return _index_common(c, True)


# ----------------------------------------------------------------------------
# iterators
# ----------------------------------------------------------------------------
@model("core::slice::iter", "core::slice::iter_mut", "std::collections::VecDeque::iter", "std::collections::VecDeque::iter_mut")
def m_slice_iter(c):
    v, _ = c.arg(0)
    arr, loc = arr_at(c, v)
    if arr is None:
        c.ret(Iter("slice", usize(), Top(), extra="ref"))
        return
    ln, l = len_lin(c, arr, loc)
    src = loc if (loc is not None and c.name.endswith("iter_mut")) else None
    # `start` is unused for slice iterators: it remembers which container a plain `iter()` walks over (all of it), so that a universally
    # quantified outcome (any() == false, all() == true) can be recorded on the container's summary element
    c.ret(Iter("slice", ln, arr.elem if not arr.elem.is_bot() else Top(), start=(loc if (loc is not None and not src) else None),
               extra=("refmut", src) if src else "ref",
               cells=dict(arr.cells) if (arr.cells and not src) else None, pos=0,
               seen=(BOT if (loc is not None and not src) else None)), extras=((("rem",), l),))


def _is_mut_ref_arg(c, i):
    """does the by-reference into_iter hand out mutable references?  Decided by the iterator type it returns: only the shared-reference
    iterators of slices, vectors and deques count as immutable"""
    ty = c.ret_ty() or {}
    p = mirlib.strip_generics(ty.get("path", ""))
    return p not in ("std::slice::Iter", "core::slice::Iter", "std::collections::vec_deque::Iter", "std::collections::vec_deque::iter::Iter")


@model("std::iter::IntoIterator::into_iter")
def m_into_iter(c):
    v, loc = c.arg(0)
    if isinstance(v, Iter):
        c.ret(v, src_loc=loc)
        return
    if isinstance(v, Struct) and v.path == "std::ops::RangeInclusive" and len(v.fields) >= 2 and all(isinstance(f, Int) for f in v.fields[:2]) \
            and v.fields[1].hi < (1 << 62) and not (len(v.fields) > 2 and isinstance(v.fields[2], Int) and v.fields[2].is_const() and v.fields[2].lo == 1):
        # a..=b walks the same values as a..b+1 (b + 1 cannot overflow here)
        a, b = v.fields[0], v.fields[1]
        e = Int.const(b.lo + 1, b.bits, b.signed) if b.is_const() else Int(b.lo + 1, b.hi + 1, b.bits, b.signed)
        ex = []
        if not a.is_const() and loc is not None:
            ex.append((("start",), LinForm.var((loc[0], loc[1] + (0,)))))
        if not b.is_const() and loc is not None:
            ex.append((("end",), LinForm.var((loc[0], loc[1] + (1,))) + 1))
        c.ret(Iter("range", start=a, end=e), extras=tuple(ex))
        return
    if isinstance(v, Struct) and v.path == "std::ops::Range":
        ex = []
        for i, nm in ((0, "start"), (1, "end")):
            f = v.fields[i]
            if isinstance(f, Int) and not f.is_const() and loc is not None:
                ex.append(((nm,), LinForm.var((loc[0], loc[1] + (i,)))))
        c.ret(Iter("range", start=v.fields[0], end=v.fields[1]), extras=tuple(ex))
        return
    arr, aloc = arr_at(c, v)
    if arr is not None:
        ln, l = len_lin(c, arr, aloc if aloc is not None else loc)
        byref = isinstance(v, Ref)
        shared = byref and aloc is not None and not _is_mut_ref_arg(c, 0)
        if byref and not shared and aloc is not None:
            # `for x in &mut v` is v.iter_mut(): the items are mutable references into the container (writes through them are weak updates of it)
            c.ret(Iter("slice", ln, arr.elem if not arr.elem.is_bot() else Top(), extra=("refmut", aloc), pos=None), extras=((("rem",), l),))
            return
        c.ret(Iter("slice", ln, arr.elem if not arr.elem.is_bot() else Top(), start=(aloc if shared else None), extra="ref" if byref else "val",
                   cells=dict(arr.cells) if arr.cells else None, pos=0, seen=(BOT if shared else None)), extras=((("rem",), l),))
        return
    c.ret(Iter("opaque"))


@model("std::iter::Iterator::take")
def m_take(c):
    it, loc = c.arg(0)
    n, nl = c.arg_int(1)
    if not isinstance(it, Iter) or it.ikind != "slice" or n is None:
        c.ret(Iter("opaque"))
        return
    rem, reml, _ = iter_remaining(c, it, loc)
    if prove_le(c.st, nl, reml, n, rem):
        c.ret(Iter("slice", n, it.elem, extra=it.extra, cells=it.cells, pos=it.pos), extras=((("rem",), nl),))
    elif prove_le(c.st, reml, nl, rem, n):
        c.ret(Iter("slice", rem, it.elem, extra=it.extra, cells=it.cells, pos=it.pos), extras=((("rem",), reml),))
    else:
        c.ret(Iter("slice", usize(min(rem.lo, n.lo), min(rem.hi, n.hi)), it.elem, extra=it.extra, cells=it.cells, pos=it.pos))


@model("std::iter::Iterator::skip")
def m_skip(c):
    it, loc = c.arg(0)
    n, nl = c.arg_int(1)
    if not isinstance(it, Iter) or it.ikind != "slice" or n is None:
        c.ret(Iter("opaque"))
        return
    rem, reml, _ = iter_remaining(c, it, loc)
    if prove_le(c.st, nl, reml, n, rem):
        lo, hi = max(rem.lo - n.hi, 0), max(rem.hi - n.lo, 0)
        l = (reml - nl) if (reml is not None and nl is not None) else None
        np_ = it.pos + n.lo if (it.pos is not None and n.is_const()) else None
        c.ret(Iter("slice", usize(lo, hi), it.elem, extra=it.extra, cells=it.cells if np_ is not None else None, pos=np_), extras=((("rem",), l),))
    else:
        c.ret(Iter("slice", usize(max(rem.lo - n.hi, 0), max(rem.hi - n.lo, 0)), it.elem, extra=it.extra))


def _refine_by_predicate(c, it, clo):
    """elements that can pass predicate `clo` (closure taking &Item): joined over the closure's true exits"""
    elem = it.elem if it.elem is not None and not it.elem.is_bot() else None
    if elem is None or not isinstance(clo, Closure):
        return None
    s = c.st.copy()
    cell = new_tmp(c, s, elem, "predelem")
    inner = Ref(cell, ()) if it.extra == "val" else None
    if inner is None:
        cell2 = new_tmp(c, s, Ref(cell, ()), "predref")
        arg = Ref(cell2, ())
    else:
        arg = inner
    r = c.I.call_closure(c, clo, [(arg, None)], st=s)
    if r is None:
        return None
    out = BOT
    for (s2, rv, rloc, nf) in r:
        try:
            if isinstance(rv, Int):
                if rv.is_const() and rv.lo == 0:
                    continue
                c.I.assume_var(s2, rloc, 1, True)
            out = join_val(out, s2.cells.get(cell, elem))
        except Infeasible:
            continue
    return None if out.is_bot() else out


@model("std::iter::Iterator::skip_while", "std::iter::Iterator::filter", "std::iter::Iterator::take_while")
def m_shrinking_adaptor(c):
    it, loc = c.arg(0)
    if c.name.endswith("filter") and isinstance(it, Iter) and it.ikind == "slice":
        clo, _ = c.arg(1)
        refined = _refine_by_predicate(c, it, clo)
        rem = it.remaining if isinstance(it.remaining, Int) else usize()
        c.ret(Iter("slice", usize(0, rem.hi), refined if refined is not None else it.elem, extra=it.extra))
        return
    if isinstance(it, Ref):
        it2, _ = c.deref(it)
        if isinstance(it2, Iter):
            it = it2
    if isinstance(it, Iter) and it.ikind == "slice":
        rem = it.remaining if isinstance(it.remaining, Int) else usize()
        c.I.assumptions.add("A-PURE-ADAPTOR: predicate closures passed to skip_while/filter/take_while neither panic nor mutate")
        c.ret(Iter("slice", usize(0, rem.hi), it.elem, extra=it.extra))
        return
    c.ret(Iter("opaque"))


@model("std::iter::Iterator::copied", "std::iter::Iterator::cloned")
def m_copied(c):
    it, loc = c.arg(0)
    if isinstance(it, Iter) and it.ikind == "slice":
        c.ret(Iter("slice", it.remaining, it.elem, extra="val"), extras=((("rem",), iter_remaining(c, it, loc)[1]),))
        return
    c.ret(Iter("opaque"))


@model("std::iter::Iterator::rev", "std::iter::Iterator::peekable", "std::iter::Iterator::fuse")
def m_rev(c):
    it, loc = c.arg(0)
    if isinstance(it, Iter):
        if c.name.endswith("::rev") and it.ikind == "slice" and it.cells:
            # positions are counted from the front: reversed, they are known only when the length is
            n = it.remaining.lo if isinstance(it.remaining, Int) and it.remaining.is_const() else None
            if n is not None and it.pos is not None:
                cells = {j: it.cells[it.pos + n - 1 - j] for j in range(n) if (it.pos + n - 1 - j) in it.cells}
                it = Iter(it.ikind, it.remaining, it.elem, it.start, it.end, it.extra, cells, 0, it.seen, it.last)
            else:
                e = it.elem
                for x in it.cells.values():
                    e = join_val(e, x)
                it = Iter(it.ikind, it.remaining, e, it.start, it.end, it.extra, None, None, it.seen, it.last)
            c.ret(it, src_loc=None)
            return
        c.ret(it, src_loc=loc)
        return
    c.ret(Iter("opaque"))


@model("std::iter::Iterator::chain")
def m_chain(c):
    a, aloc = c.arg(0)
    b, bloc = c.arg(1)
    ra, la, ea = iter_remaining(c, a, aloc)
    rb, lb, eb = iter_remaining(c, b, bloc)
    if (isinstance(a, Iter) and a.ikind != "slice") or (isinstance(b, Iter) and b.ikind != "slice"):
        c.ret(Iter("opaque"))
        return
    l = (la + lb) if (la is not None and lb is not None) else None
    elem = join_val(ea if ea is not None else Top(), eb if eb is not None else Top())
    extra = a.extra if isinstance(a, Iter) else "ref"
    c.ret(Iter("slice", usize(min(ra.lo + rb.lo, ISIZE_MAX), min(ra.hi + rb.hi, ISIZE_MAX)), elem, extra=extra), extras=((("rem",), l),))


def _closure_result_pure(c, clo, args):
    """evaluate closure on abstract args in a scratch state; -> joined result value (state discarded)"""
    s = c.st.copy()
    r = c.I.call_closure(c, clo, args, st=s)
    if r is None:
        return None
    out = BOT
    for (s2, rv, rloc, nf) in r:
        out = join_val(out, rv)
    return out


@model("std::iter::Iterator::map")
def m_iter_map(c):
    it, loc = c.arg(0)
    clo, _ = c.arg(1)
    if isinstance(it, Iter) and it.ikind == "slice":
        elem = it.elem if it.elem is not None else Top()
        if it.extra == "ref" or (isinstance(it.extra, tuple) and it.extra[0] == "refmut"):
            cell = new_tmp(c, c.st, elem, "mapelem")
            argv = Ref(cell, ())
        else:
            argv = elem
        res = _closure_result_pure(c, clo, [(argv, None)])
        c.I.assumptions.add("A-PURE-ADAPTOR: closures passed to Iterator::map are evaluated once abstractly; their panics are recorded, their effects are not ordered")
        c.ret(Iter("slice", it.remaining, res if res is not None and not res.is_bot() else Top(), extra="val"),
              extras=((("rem",), iter_remaining(c, it, loc)[1]),))
        return
    c.ret(Iter("opaque"))


@model("std::iter::Iterator::next")
def m_next(c):
    r, _ = c.arg(0)
    it, loc = c.deref(r)
    if isinstance(it, Ref):     # &mut &mut I
        it, loc = c.deref(it)
    if not isinstance(it, Iter) or loc is None:
        c.ret_top()
        return
    if it.ikind == "range":
        s, e = it.start, it.end
        if not isinstance(s, Int) or not isinstance(e, Int):
            c.ret_top()
            return
        sl = LinForm.constant(s.lo) if s.is_const() else LinForm.var((loc[0], loc[1] + ("start",)))
        el = LinForm.constant(e.lo) if e.is_const() else LinForm.var((loc[0], loc[1] + ("end",)))
        # None: start >= end
        if not c.st.entails_le(sl - el + 1):
            s0 = c.fork()
            try:
                s0.add_le(el - sl)
                c.ret(opt_none(), st=s0)
            except Infeasible:
                pass
        if not c.st.entails_le(el - sl):
            s1 = c.st
            try:
                s1.add_le(sl - el + 1)
                cur = s1.leaf((loc[0], loc[1] + ("start",))) or s
                nxt = Int(cur.lo + 1, cur.hi + 1, 64, False) if not cur.is_const() else Int.const(cur.lo + 1, 64, False)
                # result first (refers to the old start), then bump
                cell = new_tmp(c, s1, cur, "rangeitem")
                if not cur.is_const():
                    s1.cons.add_eq(LinForm.var((cell, ())) - sl)
                c.I.write_loc(s1, (loc[0], loc[1] + ("start",)), nxt, (LinForm.var((cell, ())) + 1) if not cur.is_const() else None)
                v = s1.cells[cell]
                c.ret(opt_some(v), st=s1, extras=(((("v", 1), 0), LinForm.var((cell, ())) if not cur.is_const() else None),))
            except Infeasible:
                pass
        return
    if it.ikind != "slice":
        c.ret_top()
        return
    rem = it.remaining if isinstance(it.remaining, Int) else usize()
    rvar = (loc[0], loc[1] + ("rem",))
    elem = it.elem if it.elem is not None and not it.elem.is_bot() else Top()
    it = _absorb_last(c, c.st, it, loc)
    cases = []
    if rem.is_const():
        cases = [rem.lo]
    elif rem.hi - rem.lo <= 16 and rem.hi <= 4096:
        cases = list(range(rem.lo, rem.hi + 1))
    if cases:
        for idx, r0 in enumerate(cases):
            s = c.st if idx == len(cases) - 1 else c.fork()
            try:
                if not rem.is_const():
                    c.I.assume_var(s, rvar, r0, True)
                    s.tag = tuple(x for x in s.tag if not (x[0] == "it" and x[1] == c.frame.uid and x[2] == c.bb)) + (("it", c.frame.uid, c.bb, r0),)
                if r0 == 0:
                    _exhausted(c, s, it)
                    c.ret(opt_none(), st=s)
                else:
                    c.I.write_loc(s, rvar, Int.const(r0 - 1, 64, False))
                    el = elem
                    if it.pos is not None and it.cells:
                        el = it.cells.get(it.pos, elem)
                        cur = c.I.read_loc(s, loc)
                        if isinstance(cur, Iter):
                            s.cells[loc[0]] = set_at(s.cells[loc[0]], loc[1], Iter(cur.ikind, cur.remaining, cur.elem, cur.start, cur.end, cur.extra, cur.cells, cur.pos + 1, cur.seen, cur.last))
                    item = _item(c, s, it, el, idx)
                    _note_last(c, s, loc, item)
                    c.ret(opt_some(item), st=s, extras=_enum_index_extras(c, s, it, rvar))
            except Infeasible:
                pass
        return
    # general: None (rem == 0) / Some (rem >= 1)
    if rem.lo <= 0:
        s0 = c.fork()
        try:
            c.I.assume_var(s0, rvar, 0, True)
            _exhausted(c, s0, it)
            c.ret(opt_none(), st=s0)
        except Infeasible:
            pass
    s1 = c.st
    try:
        s1.add_le(LinForm.constant(1) - LinForm.var(rvar))
        cur = s1.leaf(rvar) or rem
        tmp = new_tmp(c, s1, cur, "oldrem")
        s1.cons.add_eq(LinForm.var((tmp, ())) - LinForm.var(rvar))
        c.I.write_loc(s1, rvar, usize(max(cur.lo - 1, 0), max(cur.hi - 1, 0)), LinForm.var((tmp, ())) - 1)
        s1.kill_cell(tmp)
        cur = c.I.read_loc(s1, loc)
        el = elem
        if isinstance(cur, Iter) and cur.pos is not None:
            # the position is exact (counted from the front), so an element known by position is the one handed out
            if cur.cells:
                el = cur.cells.get(cur.pos, elem)
            s1.cells[loc[0]] = set_at(s1.cells[loc[0]], loc[1], Iter(cur.ikind, cur.remaining, cur.elem, cur.start, cur.end, cur.extra, cur.cells, cur.pos + 1, cur.seen, cur.last))
        item = _item(c, s1, it, el, 99)
        _note_last(c, s1, loc, item)
        c.ret(opt_some(item), st=s1, extras=_enum_index_extras(c, s1, it, rvar))
    except Infeasible:
        pass


def _enum_index_extras(c, st, it, rvar):
    """`iter().enumerate()` over a whole container, drawn from by next() only (the same condition as the `seen` tracking): the index handed
    out with an item is  len(container) - remaining_after - 1"""
    if not (isinstance(it.extra, tuple) and it.extra and it.extra[0] == "enum" and it.extra[1] == "ref"):
        return ()
    if it.seen is None or not isinstance(it.start, tuple):
        return ()
    src = it.start
    cur = c.I.read_loc(st, src)
    if not isinstance(cur, Arr):
        return ()
    lv = (src[0], src[1] + ("len",))
    if st.leaf(lv) is None or st.leaf(rvar) is None:
        return ()
    l = LinForm.var(lv) if not cur.len.is_const() else LinForm.constant(cur.len.lo)
    r = st.leaf(rvar)
    rl = LinForm.var(rvar) if not r.is_const() else LinForm.constant(r.lo)
    return (((("v", 1), 0, 0), l - rl - 1),)


def _tracked(it):
    return isinstance(it, Iter) and it.seen is not None and it.extra == "ref" and isinstance(it.start, tuple)


def _absorb_last(c, st, it, loc):
    """loop-universal inference, step 1 (at every next()): what the code between the previous next() and this one has established about
    the item it was given — the item's own cell, refined by the branches taken — is accumulated in `seen`"""
    if not _tracked(it):
        return it
    seen = it.seen
    if it.last is not None:
        prev = st.cells.get(it.last)
        seen = join_val(seen, prev) if prev is not None else None
    new = Iter(it.ikind, it.remaining, it.elem, it.start, it.end, it.extra, it.cells, it.pos, seen, None)
    st.cells[loc[0]] = set_at(st.cells[loc[0]], loc[1], new)
    return new


def _note_last(c, st, loc, item):
    cur = c.I.read_loc(st, loc)
    if not _tracked(cur):
        return
    last = item.cell if isinstance(item, Ref) and item.path == () else None
    if last is None:
        new = Iter(cur.ikind, cur.remaining, cur.elem, cur.start, cur.end, cur.extra, cur.cells, cur.pos, None, None)
    else:
        new = Iter(cur.ikind, cur.remaining, cur.elem, cur.start, cur.end, cur.extra, cur.cells, cur.pos, cur.seen, last)
    st.cells[loc[0]] = set_at(st.cells[loc[0]], loc[1], new)


def _exhausted(c, st, it):
    """loop-universal inference, step 2 (next() == None): the iterator was created over the whole container by shared reference — which the
    borrow checker keeps unchanged while the iterator lives — and has now yielded every element; each one satisfied `seen` when control
    came back.  The container's summary element is met with it (variants and ranges no element can have are removed); an empty meet means
    the container is empty"""
    if not _tracked(it) or it.seen.is_bot():
        return
    src = it.start
    if any(x == "elem" for x in src[1]):
        return                      # a container inside a summarised element: no strong update
    cur = c.I.read_loc(st, src)
    if not isinstance(cur, Arr) or cur.cells:
        return
    new_elem = meet_val(cur.elem, it.seen)
    if new_elem.is_bot():
        lv = (src[0], src[1] + ("len",))
        if st.leaf(lv) is not None:
            c.I.assume_var(st, lv, 0, True)
        return
    if new_elem is not cur.elem and new_elem != cur.elem:
        st.cells[src[0]] = set_at(st.cells[src[0]], src[1], Arr(cur.len, new_elem, None, cur.container, cur.view_of))
        c.I.emit("universal", call=c, src=src, elem=new_elem)


@model("std::iter::Iterator::enumerate")
def m_enumerate(c):
    it, loc = c.arg(0)
    if not isinstance(it, Iter) or it.ikind != "slice":
        c.ret(Iter("opaque"))
        return
    # same iterator, items become (index, item); the index is only known to be a valid count
    c.ret(Iter(it.ikind, it.remaining, it.elem, it.start, it.end, ("enum", it.extra), it.cells, it.pos, it.seen, None), src_loc=loc)


def _item(c, st, it, elem, tag):
    if isinstance(it.extra, tuple) and it.extra and it.extra[0] == "enum":
        inner = Iter(it.ikind, it.remaining, it.elem, it.start, it.end, it.extra[1], it.cells, it.pos)
        return Struct("tuple", [Int(0, ISIZE_MAX, 64, False), _item(c, st, inner, elem, tag)])
    if it.extra == "val":
        return elem
    if isinstance(it.extra, tuple) and it.extra[0] == "refmut" and it.extra[1] is not None:
        src = it.extra[1]
        return Ref(src[0], src[1] + ("elem",), True)
    cell = new_tmp(c, st, elem, ("item", tag))
    return Ref(cell, ())


@model("std::iter::Iterator::collect")
def m_collect(c):
    it, loc = c.arg(0)
    ty = c.ret_ty()
    rem, l, elem = iter_remaining(c, it, loc)
    p = mirlib.strip_generics(ty.get("path", "")) if ty else ""
    c.I.emit("alloc", call=c, size=rem, size_lin=l, what="collect")
    if p in ("std::vec::Vec", "std::collections::VecDeque", "std::string::String"):
        c.ret(Arr(rem, elem if elem is not None else Top(), None, "deque" if p.endswith("VecDeque") else "vec"), extras=((("len",), l),))
        return
    c.ret_top()


def _closure_bools(c, clo, arg):
    res = _closure_result_pure(c, clo, [arg])
    if isinstance(res, Int):
        return res
    return Int.boolean()


def _pred_by_variant(c, clo, it, elem):
    """for every enum node of the element with several variants: variant -> the predicate's constant answer (None when not constant)"""
    from absint import _discriminators
    out = {}
    for path, kind, variants in _discriminators(elem):
        if kind != "enum" or len(variants) < 2:
            continue
        e = get_at(elem, path)
        tab = {}
        for idx in sorted(variants):
            ev = set_at(elem, path, Enum(e.path, {idx: e.variants[idx]}))
            cell = new_tmp(c, c.st, ev, ("predelem", idx))
            r = _closure_result_pure(c, clo, [(Ref(cell, ()) if it.extra != "val" else ev, None)])
            tab[idx] = r.lo if isinstance(r, Int) and r.is_const() else None
        out[path] = tab
    return out


def _universal_outcome(c, s_u, it, loc, clo, b, univ, elem):
    """the outcome of a quantified query that speaks about every remaining element (any == false / all == true / position == None): recorded
    on the summary element of the container a plain `iter()` walks over — variants for which the predicate gives the excluded answer are
    removed; if no element could give the outcome, the container is empty.  May raise Infeasible."""
    src = it.start if isinstance(it.start, tuple) and it.extra == "ref" else None
    if b.is_const() and b.lo == 1 - univ:
        # the predicate gives the excluded answer for every possible element: the universal outcome means there was no element
        rv_ = (loc[0], loc[1] + ("rem",)) if loc is not None else None
        if rv_ is not None and s_u.leaf(rv_) is not None:
            c.I.assume_var(s_u, rv_, 0, True)
        if src is not None:
            cur0 = c.I.read_loc(s_u, src)
            if isinstance(cur0, Arr) and s_u.leaf((src[0], src[1] + ("len",))) is not None:
                c.I.assume_var(s_u, (src[0], src[1] + ("len",)), 0, True)
    elif src is not None and isinstance(clo, Closure):
        cur = c.I.read_loc(s_u, src)
        if isinstance(cur, Arr):
            tabs = _pred_by_variant(c, clo, it, cur.elem if not cur.elem.is_bot() else elem)
            new_elem = cur.elem
            empty_only = False
            for path, tab in tabs.items():
                e = get_at(new_elem, path)
                if not isinstance(e, Enum):
                    continue
                keep = {i: e.variants[i] for i in e.variants if tab.get(i) != (1 - univ)}
                if not keep:
                    empty_only = True
                elif len(keep) < len(e.variants):
                    new_elem = set_at(new_elem, path, Enum(e.path, keep))
            if empty_only:
                # no element can satisfy the outcome: the container is empty
                lv = (src[0], src[1] + ("len",))
                c.I.assume_var(s_u, lv, 0, True)
            elif new_elem is not cur.elem:
                s_u.cells[src[0]] = set_at(s_u.cells[src[0]], src[1], Arr(cur.len, new_elem, None, cur.container, cur.view_of))



@model("std::iter::Iterator::any", "std::iter::Iterator::all")
def m_any_all(c):
    r, _ = c.arg(0)
    it, loc = c.deref(r)
    if not isinstance(it, Iter):
        it = r if isinstance(r, Iter) else None
    clo, _ = c.arg(1)
    is_any = c.name.endswith("any")
    empty_result = 0 if is_any else 1
    if it is None or it.ikind != "slice":
        c.ret(Int.boolean())
        return
    rem = it.remaining if isinstance(it.remaining, Int) else usize()
    elem = it.elem if it.elem is not None and not it.elem.is_bot() else Top()
    if rem.hi == 0:
        c.ret(Int.const(empty_result, 1, False))
        return
    if it.cells:
        # elements known by position: one of them that certainly lies in the remaining range and decides the quantifier decides the call;
        # the others are folded into the summary element the general evaluation below speaks about
        for k, cv in sorted(it.cells.items()):
            if it.pos is not None and it.pos <= k < it.pos + rem.lo:
                ck = new_tmp(c, c.st, cv, ("anycell", k))
                bk = _closure_bools(c, clo, (Ref(ck, ()) if it.extra != "val" else cv, None))
                if bk.is_const() and bk.lo == 1 - empty_result:
                    c.I.emit("any_all", call=c, closure=clo, elem_bools=bk, iter_src=it)
                    c.ret(Int.const(1 - empty_result, 1, False))
                    return
            elem = join_val(elem, cv)
    cell = new_tmp(c, c.st, elem, "anyelem")
    b = _closure_bools(c, clo, (Ref(cell, ()) if it.extra != "val" else elem, None))
    c.I.emit("any_all", call=c, closure=clo, elem_bools=b, iter_src=it)
    if b.is_const() and b.lo == empty_result:
        c.ret(Int.const(empty_result, 1, False))
        return
    if b.is_const() and rem.lo >= 1:
        c.ret(Int.const(b.lo, 1, False))
        return
    # undetermined: one successor per outcome.  The outcome that speaks about *every* element (any == false, all == true) is recorded on
    # the summary element of the container the iterator walks over: variants for which the predicate gives the excluded answer are removed
    src = it.start if isinstance(it.start, tuple) and it.extra == "ref" else None
    univ = empty_result                      # any: false (0), all: true (1) is the universally quantified outcome
    s_other = c.fork()
    c.ret(Int.const(1 - univ, 1, False), st=s_other)
    s_u = c.st
    try:
        _universal_outcome(c, s_u, it, loc, clo, b, univ, elem)
        c.ret(Int.const(univ, 1, False), st=s_u)
    except Infeasible:
        pass


@model("std::iter::Iterator::position", "std::iter::Iterator::rposition")
def m_position(c):
    r, _ = c.arg(0)
    it, loc = c.deref(r)
    clo, _ = c.arg(1)
    if not isinstance(it, Iter) or it.ikind != "slice":
        c.ret_top()
        return
    rem, l, elem = iter_remaining(c, it, loc)
    el0 = elem if elem is not None and not elem.is_bot() else Top()
    if it.cells:
        for x in it.cells.values():
            el0 = join_val(el0, x)
    cell = new_tmp(c, c.st, el0, "poselem")
    b = _closure_bools(c, clo, (Ref(cell, ()) if it.extra != "val" else el0, None))
    if not (b.is_const() and b.lo == 1 and rem.lo >= 1):
        # None: the predicate was false for every remaining element (as any() == false)
        s0 = c.fork()
        try:
            _universal_outcome(c, s0, it, loc, clo, b, 0, el0)
            c.ret(opt_none(), st=s0)
        except Infeasible:
            pass
    if rem.hi >= 1 and not (b.is_const() and b.lo == 0):
        s1 = c.st
        idx = usize(0, rem.hi - 1)
        c.ret(opt_some(idx), st=s1)
        dloc = c.I.resolve(s1, c.frame, c.term["dest"])
        if dloc is not None and l is not None:
            try:
                s1.add_le(LinForm.var((dloc[0], dloc[1] + (("v", 1), 0))) - l + 1)
            except Infeasible:
                pass


@model("std::iter::Iterator::fold")
def m_fold(c):
    it, loc = c.arg(0)
    init, _ = c.arg(1)
    clo, _ = c.arg(2)
    if not isinstance(it, Iter) or it.ikind != "slice":
        c.ret_top()
        return
    elem = it.elem if it.elem is not None and not it.elem.is_bot() else Top()
    acc = init
    rem = it.remaining
    if isinstance(rem, Int) and rem.is_const() and rem.lo <= 8:
        # exact: apply the closure rem times (elements by position when known)
        for i in range(rem.lo):
            el = elem
            if it.pos is not None and it.cells:
                el = it.cells.get(it.pos + i, elem)
            cell = new_tmp(c, c.st, el, ("foldelem", i))
            res = _closure_result_pure(c, clo, [(acc, None), (Ref(cell, ()) if it.extra != "val" else el, None)])
            if res is None:
                c.ret_top()
                return
            acc = res
        c.ret(acc)
        return
    if isinstance(rem, Int) and rem.hi <= 8:
        # a short slice of unknown length: the exact result for each possible length, joined
        out = None
        for i in range(rem.hi + 1):
            if i >= rem.lo:
                out = acc if out is None else join_val(out, acc)
            if i == rem.hi:
                break
            el = elem
            if it.pos is not None and it.cells:
                el = it.cells.get(it.pos + i, elem)
            cell = new_tmp(c, c.st, el, ("foldelem", i))
            res = _closure_result_pure(c, clo, [(acc, None), (Ref(cell, ()) if it.extra != "val" else el, None)])
            if res is None:
                c.ret_top()
                return
            acc = res
        c.ret(out)
        return
    for _ in range(8):
        cell = new_tmp(c, c.st, elem, "foldelem")
        res = _closure_result_pure(c, clo, [(acc, None), (Ref(cell, ()) if it.extra != "val" else elem, None)])
        if res is None:
            c.ret_top()
            return
        nxt = join_val(acc, res)
        if nxt == acc:
            break
        acc = nxt
    else:
        acc = c.I.havoc_val(acc)
    c.ret(acc)


@model("core::slice::split_first", "core::slice::split_last")
def m_split_first(c):
    """&[T] -> Option<(&T, &[T])>: None exactly for the empty slice; otherwise the first (last) element and a view of the rest whose length is
    the slice's length - 1"""
    arr, loc = _vec_arg(c)
    if arr is None:
        c.ret_top()
        return
    first = c.name.endswith("split_first")
    ln, l = len_lin(c, arr, loc)
    nonempty = ln.lo >= 1 or (l is not None and c.st.entails_le(LinForm.constant(1) - l))
    if not nonempty:
        s0 = c.fork()
        try:
            if l is not None and not l.is_const():
                s0.add_eq(l)
            c.ret(opt_none(), st=s0)
        except Infeasible:
            pass
    if ln.hi >= 1:
        s1 = c.st
        try:
            if l is not None and not l.is_const():
                s1.add_le(LinForm.constant(1) - l)
            elem = arr.elem if not arr.elem.is_bot() else Top()
            cells = arr.cells or {}
            if first:
                head = cells.get(0, elem)
                if 0 not in cells and cells:
                    pass
                rest_cells = {k - 1: v for k, v in cells.items() if k >= 1}
            else:
                n = ln.lo if ln.is_const() else None
                if n is not None and (n - 1) in cells:
                    head = cells[n - 1]
                else:
                    head = elem
                    for x in cells.values():
                        head = join_val(head, x)
                rest_cells = {k: v for k, v in cells.items() if n is None or k < n - 1}
            hcell = new_tmp(c, s1, head, "splithead")
            rest = Arr(usize(max(ln.lo - 1, 0), max(ln.hi - 1, 0)), elem, rest_cells or None, "slice")
            rcell = new_tmp(c, s1, rest, "splitrest")
            if l is not None and not l.is_const():
                try:
                    s1.cons.add_eq(LinForm.var((rcell, ("len",))) - l + 1)
                except Exception:
                    pass
            c.ret(opt_some(Struct("tuple", [Ref(hcell, ()), Ref(rcell, ())])), st=s1)
        except Infeasible:
            pass
