"""canon — renamed private items are given back their reference names before any rule looks at the program.

The rules name the library's private functions and fields (read_next, ensure_data_read, internal_buffer_position, ...).  A rename of a
private item changes no behaviour, so it must not change a verdict.  When a fact file lacks a function or field that the reference table
(`anchors.json`, made from the tree the rules were written against) has, and has one the table does not know, the unknown one is matched to
the missing one by what it *is* — its owner, signature and the non-local functions it calls; its position and type for a field — and the
facts are rewritten in memory to the reference name.  Matching is conservative: a candidate must be a near-perfect, unique and mutual best
match, otherwise nothing is renamed and the rule that needs the anchor fails closed (ANCHOR-LOST) as before.  Every renaming applied is
reported with the run (evidence `notes`)."""
import json
import os
import re
from collections import Counter

HERE = os.path.dirname(os.path.abspath(__file__))
ANCHORS = os.path.join(HERE, "anchors.json")

_GEN = re.compile(r"::<[^<>]*(?:<[^<>]*(?:<[^<>]*>[^<>]*)*>[^<>]*)*>")


def strip_generics(p):
    prev = None
    while prev != p:
        prev = p
        p = _GEN.sub("", p)
    return p


def _ty_s(ty):
    if isinstance(ty, str):
        return ty
    return (ty or {}).get("s") or json.dumps(ty, sort_keys=True)[:80]


def _callee_names(bd):
    out = Counter()
    n_local = 0
    crate = bd.get("crate")
    for blk in bd["blocks"]:
        t = blk.get("term") or {}
        if t.get("k") != "call":
            continue
        f = t.get("func") or {}
        c = f.get("fn") if isinstance(f, dict) else None
        if not isinstance(c, dict) or "path" not in c:
            continue
        if c.get("crate") == crate or c.get("local") or (c.get("resolved") or {}).get("local"):
            n_local += 1
        else:
            out[strip_generics(c["path"])] += 1
    return out, n_local


def fingerprint(bd):
    callees, n_local = _callee_names(bd)
    locs = bd["locals"]
    argc = bd.get("arg_count", 0)
    imp = bd.get("impl_self")
    owner = strip_generics(_ty_s(imp)) if imp else strip_generics(bd["def_path"]).rsplit("::", 1)[0]
    return {
        "owner": owner,
        "trait": _ty_s(bd.get("impl_trait")) if bd.get("impl_trait") else None,
        "argc": argc,
        "args": [_ty_s(l["ty"]) for l in locs[1:argc + 1]],
        "ret": _ty_s(locs[0]["ty"]) if locs else None,
        "vis": bd.get("vis"),
        "callees": dict(callees),
        "n_local": n_local,
        "n_blocks": len(bd["blocks"]),
    }


def similarity(a, b):
    if a["owner"] != b["owner"] or a["trait"] != b["trait"]:
        return 0.0
    s = 0.0
    s += 0.15 if a["argc"] == b["argc"] else 0.0
    s += 0.10 if a["args"] == b["args"] else 0.0
    s += 0.15 if a["ret"] == b["ret"] else 0.0
    ca, cb = Counter(a["callees"]), Counter(b["callees"])
    inter = sum((ca & cb).values())
    union = sum((ca | cb).values())
    s += 0.5 * ((inter / union) if union else 1.0)
    hi = max(a["n_blocks"], b["n_blocks"], 1)
    s += 0.10 * (1.0 - abs(a["n_blocks"] - b["n_blocks"]) / hi)
    return s


def make_table(crate_dicts):
    """reference table from loaded fact dicts"""
    fns, adts = {}, {}
    for d in crate_dicts:
        for bd in d["bodies"]:
            if bd["kind"] in ("closure", "promoted") or bd.get("promoted_index") is not None:
                continue
            fns[strip_generics(bd["def_path"])] = fingerprint(bd)
        for a in d["adts"]:
            if a.get("is_enum") or not a.get("variants"):
                continue
            adts[strip_generics(a["path"])] = [[f["name"], _ty_s(f["ty"])] for f in a["variants"][0]["fields"]]
    return {"functions": fns, "structs": adts}


def _load():
    try:
        with open(ANCHORS) as f:
            return json.load(f)
    except (OSError, ValueError):
        return None


def _match_functions(ref, cur):
    """ref, cur: name -> fingerprint.  -> {current name: reference name}"""
    missing = [n for n in ref if n not in cur]
    extra = [n for n in cur if n not in ref]
    if not missing or not extra:
        return {}
    scores = {}
    for m in missing:
        for e in extra:
            s = similarity(ref[m], cur[e])
            if s > 0:
                scores[(m, e)] = s
    out = {}
    for m in missing:
        cand = sorted(((s, e) for (mm, e), s in scores.items() if mm == m), reverse=True)
        if not cand:
            continue
        best = cand[0][0]
        margin = best - (cand[1][0] if len(cand) > 1 else 0.0)
        # near-identical with a clear lead, or clearly the only candidate that resembles it at all
        if not ((best >= 0.8 and margin >= 0.08) or (best >= 0.6 and margin >= 0.25)):
            continue
        e = cand[0][1]
        # mutual: m is also e's best reference, with the same kind of lead
        back = sorted(((s, mm) for (mm, ee), s in scores.items() if ee == e), reverse=True)
        bmargin = back[0][0] - (back[1][0] if len(back) > 1 else 0.0)
        if back[0][1] != m or bmargin < (0.08 if best >= 0.8 else 0.25):
            continue
        out[e] = m
    return out


def _match_fields(ref_fields, cur_fields):
    """-> {current field name: reference field name}"""
    ref_names = [n for n, _ in ref_fields]
    cur_names = [n for n, _ in cur_fields]
    missing = [(i, n, t) for i, (n, t) in enumerate(ref_fields) if n not in cur_names]
    extra = [(i, n, t) for i, (n, t) in enumerate(cur_fields) if n not in ref_names]
    out = {}
    used = set()
    for i, n, t in missing:
        # same position and type
        hit = [(j, cn, ct) for j, cn, ct in extra if j == i and ct == t and cn not in used]
        if not hit:
            # unique unknown field of that type
            hit = [(j, cn, ct) for j, cn, ct in extra if ct == t and cn not in used]
            same_ty_missing = [x for x in missing if x[2] == t]
            if len(hit) != 1 or len(same_ty_missing) != 1:
                continue
        out[hit[0][1]] = n
        used.add(hit[0][1])
    return out


def _rename_fields_walk(node, owner_fields, sig):
    """rename field projections {"k": "field", "i": index, "name": .., "ty": ..}: a projection belongs to the struct being renamed when its
    name, index and field type all agree with that struct's field (sig: name -> (index, type string))"""
    stack = [node]
    while stack:
        x = stack.pop()
        if isinstance(x, dict):
            if x.get("k") == "field" and x.get("name") in owner_fields:
                want = sig.get(x["name"])
                if want is not None and x.get("i") == want[0] and _ty_s(x.get("ty")) == want[1]:
                    x["name"] = owner_fields[x["name"]]
            stack.extend(x.values())
        elif isinstance(x, list):
            stack.extend(x)


def canonicalise(crate_dicts):
    """rewrite the loaded fact dicts in place; -> list of human-readable renamings applied"""
    ref = _load()
    if ref is None:
        return []
    notes = []
    cur = make_table(crate_dicts)
    fmap = _match_functions(ref["functions"], cur["functions"])
    if fmap:
        for d in crate_dicts:
            txt = json.dumps(d)
            for cur_name, ref_name in fmap.items():
                owner, last = cur_name.rsplit("::", 1)
                ref_last = ref_name.rsplit("::", 1)[1]
                head = owner.rsplit("::", 1)[-1]
                # <owner>[::<generics>]::<last> followed by a delimiter; owner's last segment anchors the match
                pat = re.compile(r'(\b' + re.escape(head) + r'(?:::<[^"]*?>)?::)' + re.escape(last) + r'(?=["<:\\ ])')
                txt = pat.sub(lambda m: m.group(1) + ref_last, txt)
            nd = json.loads(txt)
            for bd in nd["bodies"]:
                dp = strip_generics(bd["def_path"])
                for cur_name, ref_name in fmap.items():
                    if bd.get("name") == cur_name.rsplit("::", 1)[1] and dp == ref_name:
                        bd["name"] = ref_name.rsplit("::", 1)[1]
            d.clear()
            d.update(nd)
        for c, r in sorted(fmap.items()):
            notes.append("function %s is named %s in this tree (matched by owner, signature and callees)" % (r, c.rsplit("::", 1)[1]))
    # fields
    all_field_names = Counter()
    for d in crate_dicts:
        for a in d["adts"]:
            for v in a.get("variants") or []:
                for f in v["fields"]:
                    all_field_names[f["name"]] += 1
    for sname, ref_fields in ref["structs"].items():
        cf = cur["structs"].get(sname)
        if cf is None:
            continue
        m = _match_fields(ref_fields, cf)
        # the reference name must not be in use by another field of this struct; projections are told apart by index and type
        cur_names = {n for n, _ in cf}
        m = {c: r for c, r in m.items() if r not in cur_names}
        if not m:
            continue
        sig = {n: (i, t) for i, (n, t) in enumerate(cf)}
        # another struct with a field of the same name, index and type would be indistinguishable in a projection
        clash = set()
        for other, ofields in cur["structs"].items():
            if other == sname:
                continue
            for i, (n, t) in enumerate(ofields):
                if n in m and sig[n] == (i, t):
                    clash.add(n)
        m = {c: r for c, r in m.items() if c not in clash}
        if not m:
            continue
        for d in crate_dicts:
            for a in d["adts"]:
                if strip_generics(a["path"]) == sname:
                    for f in a["variants"][0]["fields"]:
                        if f["name"] in m:
                            f["name"] = m[f["name"]]
            _rename_fields_walk(d["bodies"], m, sig)
        for c, r in sorted(m.items()):
            notes.append("field %s.%s is named %s in this tree (matched by position and type)" % (sname, r, c))
    return notes


if __name__ == "__main__":
    import sys
    fact_dir = sys.argv[1]
    ds = []
    for fn in sorted(os.listdir(fact_dir)):
        if fn.endswith(".json"):
            with open(os.path.join(fact_dir, fn)) as f:
                ds.append(json.load(f))
    if len(sys.argv) > 2 and sys.argv[2] == "--write":
        with open(ANCHORS, "w") as f:
            json.dump(make_table(ds), f, indent=0, sort_keys=True)
        print("wrote", ANCHORS)
    else:
        for n in canonicalise(ds):
            print(n)
