"""helpers shared by rule modules"""
from collections import defaultdict

import absrun
from absval import Arr, Enum, Int, Ref, Struct, Top
from core import AnchorLost


def find_one(prog, suffix):
    r = prog.find(suffix)
    if len(r) != 1:
        raise AnchorLost("expected exactly one function %r, found %d" % (suffix, len(r)))
    return r[0]


def obligation_findings(rep, eng, prefix="PANIC", only_fn_prefixes=None, assumed_filter=None):
    """turn the engine's obligations into rule obligations/findings with stable keys"""
    groups = defaultdict(list)
    for k, o in eng.obligations.items():
        groups[(o.fn, o.kind, o.desc)].append(o)
    n_bad = 0
    for (fn, kind, desc), obs in sorted(groups.items()):
        obs.sort(key=lambda o: o.key[1])
        for i, o in enumerate(obs):
            key = "%s|%s|%s|%s|#%d" % (prefix, fn, kind, desc, i)
            if assumed_filter is not None:
                a = assumed_filter(o)
                if a:
                    rep.obligations += 1
                    rep.discharged += 1
                    rep.assumed.append(a) if a not in rep.assumed else None
                    continue
            ok = rep.oblige(o.ok, key, o.where, "%s %s in %s is not discharged" % (kind, desc, fn),
                            {"witness": o.witness, "reached": o.reached})
            if not ok:
                n_bad += 1
    return n_bad


def ret_value(st, frame):
    return st.cells.get(frame.cell(0))


def enum_variants(v):
    return set(v.variants) if isinstance(v, Enum) else None


def describe_val(v):
    return repr(v)[:200]


def only_called_under(prog, body, root_names, _seen=None):
    """True when every call chain that reaches `body` (a fn, or the fn a closure belongs to) passes through one of the functions named in
    `root_names` first — i.e. `body` is a private helper of those functions (the roots themselves qualify trivially)"""
    import mirlib
    fn = prog.function_root(body) or body
    if fn.name in root_names:
        return True
    seen = _seen if _seen is not None else set()
    if fn.key in seen:
        return True          # a cycle adds no new entry
    seen.add(fn.key)
    callers = []
    for (b, bb, t) in prog.callers_of(fn.path):
        callers.append(prog.function_root(b) or b)
    if not callers:
        return False         # an entry point of its own (public API or unused): not confined to the roots
    if fn.vis == "public" or fn.vis == "pub":
        return False
    return all(only_called_under(prog, cb, root_names, seen) for cb in callers)
