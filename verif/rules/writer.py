"""structural rules over tag_writer.rs (C09, C10, C11): who may touch the destination, flush guard,
flush completeness, close-then-deliver, shared matcher.

These rules read the resolved MIR: callee identity, field projections, dominance / edge dominance.
Anchors are function and field *names* and resolved callee paths; nothing depends on line numbers
or statement order beyond what the rule states.
"""
import absrun
from absint import State
from absval import Arr, Enum, Int, Ref, Struct, Top, ISIZE_MAX
from core import AnchorLost, RuleReport
import mirlib
from mirlib import strip_generics, callee_name
from rules.common import find_one

WRITER = "tag_writer::TagWriter"


def writer_bodies(prog):
    return [b for b in prog.bodies.values() if b.promoted_index is None and (b.path.startswith(WRITER + "::") or (b.parent or "").startswith(WRITER + "::"))]


def _places_in_stmt(st):
    out = []
    if st["k"] == "assign":
        out.append(("w", st["place"]))
        rv = st["rv"]
        for key in ("op", "a", "b"):
            o = rv.get(key)
            if isinstance(o, dict) and o.get("k") in ("copy", "move"):
                out.append(("r", o["place"]))
        for o in rv.get("ops", ()):
            if o.get("k") in ("copy", "move"):
                out.append(("r", o["place"]))
        if "place" in rv:
            out.append(("b" if rv["k"] in ("ref", "rawptr") else "r", rv["place"]))
    return out


def _places_in_term(t):
    out = []
    if t["k"] == "call":
        for a in t["args"]:
            if a.get("k") in ("copy", "move"):
                out.append(("r", a["place"]))
        out.append(("w", t["dest"]))
    elif t["k"] == "drop":
        out.append(("r", t["place"]))
    elif t["k"] == "switch" and t["discr"].get("k") in ("copy", "move"):
        out.append(("r", t["discr"]["place"]))
    return out


def field_accesses(body, field):
    """(bb, kind, place) for every place that projects through a field with this name"""
    out = []
    for b in sorted(body.live_blocks()):
        blk = body.blocks[b]
        for st in blk["stmts"]:
            for kind, p in _places_in_stmt(st):
                if any(e["k"] == "field" and e.get("name") == field for e in p["proj"]):
                    out.append((b, kind, p))
        for kind, p in _places_in_term(blk["term"]):
            if any(e["k"] == "field" and e.get("name") == field for e in p["proj"]):
                out.append((b, kind, p))
    return out


def local_sources(body, local, depth=8, seen=None):
    """field names / callee names a local's value derives from, following assignments and call results backwards"""
    seen = seen if seen is not None else set()
    out = set()
    if local in seen or depth == 0:
        return out
    seen.add(local)
    for b, i, st in body.statements():
        if st["k"] == "assign" and st["place"]["local"] == local and not st["place"]["proj"]:
            rv = st["rv"]
            ps = [p for _, p in _places_in_stmt(st)[1:]]
            for p in ps:
                for e in p["proj"]:
                    if e["k"] == "field" and e.get("name"):
                        out.add("field:" + e["name"])
                out |= local_sources(body, p["local"], depth - 1, seen)
    for b, t, c in body.calls():
        if t["dest"]["local"] == local and not t["dest"]["proj"]:
            if c is not None:
                out.add("call:" + strip_generics(c["path"]))
            for a in t["args"]:
                if a.get("k") in ("copy", "move"):
                    for e in a["place"]["proj"]:
                        if e["k"] == "field" and e.get("name"):
                            out.add("field:" + e["name"])
                    out |= local_sources(body, a["place"]["local"], depth - 1, seen)
    return out


# ----------------------------------------------------------------------------------------------
def r_dest_owner(ctx):
    rep = RuleReport("R-DEST-OWNER", "the destination is touched only by new/into_inner/get_mut/get_ref/private_flush; it is written with "
                     "write_all (never a partial write) and flushed; the working buffer is shrunk only by private_flush's full drain and by the Full rollback")
    prog = ctx.prog
    ctx.need_file("ebml_iterable", "src/tag_writer.rs")
    allowed = {"new", "into_inner", "get_mut", "get_ref", "private_flush"}
    n = 0
    for b in writer_bodies(prog):
        root = prog.function_root(b)
        rname = root.name if root is not None else b.name
        for bb, kind, p in field_accesses(b, "dest"):
            n += 1
            rep.instance("%s: %s of .dest" % (b.key, {"r": "read", "w": "write", "b": "borrow"}[kind]))
            rep.oblige(rname in allowed, "DEST-OWNER|%s|%s" % (rname, kind), b.span,
                       "field `dest` is accessed in %s, outside its owners %s" % (b.key, sorted(allowed)))
    if n < 3:
        raise AnchorLost("R-DEST-OWNER: only %d accesses to TagWriter.dest found" % n)
    # what is called on the destination
    pf = find_one(prog, "TagWriter::private_flush")
    io_calls = [(bb, strip_generics(c["path"])) for bb, t, c in pf.calls() if c is not None and strip_generics(c["path"]).startswith("std::io::Write::")]
    names = [nm for _, nm in io_calls]
    rep.instance("private_flush io calls: %s" % names)
    rep.oblige("std::io::Write::write_all" in names, "DEST-IO|write_all", pf.span, "private_flush does not hand the buffer over with write_all (calls: %s)" % names)
    rep.oblige("std::io::Write::flush" in names, "DEST-IO|flush", pf.span, "private_flush does not flush the destination (calls: %s)" % names)
    for bdy in writer_bodies(prog):
        for bb, t, c in bdy.calls():
            if c is None:
                continue
            nm = strip_generics(c["path"])
            if nm.startswith("std::io::Write::") and nm not in ("std::io::Write::write_all", "std::io::Write::flush"):
                rep.oblige(False, "DEST-IO|%s|%s" % (bdy.name, nm), bdy.span, "%s calls %s on the destination: partial writes are not retried" % (bdy.key, nm))
            if nm.startswith("std::io::Write::"):
                root = prog.function_root(bdy)
                rep.oblige((root.name if root else bdy.name) == "private_flush", "DEST-IO-SITE|%s" % bdy.name, bdy.span,
                           "%s performs I/O on the destination outside private_flush" % bdy.key)
    # shrinking of working_buffer
    shrinkers = ("std::vec::Vec::drain", "std::vec::Vec::truncate", "std::vec::Vec::clear", "std::vec::Vec::pop", "std::vec::Vec::split_off",
                 "std::vec::Vec::remove", "std::vec::Vec::swap_remove", "std::vec::Vec::retain", "std::vec::Vec::set_len", "std::mem::take", "std::mem::replace")
    for bdy in writer_bodies(prog):
        for bb, t, c in bdy.calls():
            if c is None:
                continue
            nm = strip_generics(c["path"])
            if nm not in shrinkers or not t["args"]:
                continue
            a0 = t["args"][0]
            if a0.get("k") not in ("copy", "move"):
                continue
            src = local_sources(bdy, a0["place"]["local"])
            if "field:working_buffer" not in src:
                continue
            root = prog.function_root(bdy)
            rn = root.name if root else bdy.name
            rep.instance("%s shrinks working_buffer via %s" % (bdy.key, nm))
            ok = (rn == "private_flush" and nm == "std::vec::Vec::drain") or (rn == "write_explicit_sized" and nm == "std::vec::Vec::truncate")
            rep.oblige(ok, "WB-SHRINK|%s|%s" % (rn, nm), bdy.span, "%s shrinks the working buffer with %s (only private_flush's drain and the Full rollback's truncate may)" % (bdy.key, nm))
            if rn == "private_flush" and nm == "std::vec::Vec::drain":
                rty = t["args"][1].get("ty") or t["args"][1].get("place", {}).get("ty") or {}
                rpath = strip_generics(rty.get("path", ""))
                rep.oblige(rpath == "std::ops::RangeFull", "WB-DRAIN-FULL", bdy.span, "private_flush drains %s instead of the whole buffer (..)" % (rpath or "?"))
    return rep


def _switch_after_call(body, call_bb):
    """the block that switches on the result of the call in call_bb (directly), -> (switch_bb, term) or None"""
    t = body.blocks[call_bb]["term"]
    tgt = t["target"]
    if tgt is None:
        return None
    dest = t["dest"]["local"]
    seen = set()
    b = tgt
    while b not in seen:
        seen.add(b)
        tt = body.blocks[b]["term"]
        if tt["k"] == "switch" and tt["discr"].get("k") in ("copy", "move") and tt["discr"]["place"]["local"] == dest:
            return b, tt
        if tt["k"] == "goto":
            b = tt["target"]
            continue
        return None
    return None


def _closure_true_iff_known(ctx, clo_body):
    """abstractly run the predicate closure on an element whose .1 is Known / Unknown"""
    prog = ctx.prog
    res = {}
    for variant, label in ((0, "Known"), (1, "Unknown")):
        eng = absrun.make_engine(prog)

        def setup(eng_, st, frame, variant=variant):
            size = Enum("tag_iterator_util::EBMLSize", {variant: (Int.top(64, False),) if variant == 0 else ()})
            elem = Struct("tuple", [Int.top(64, False), size, Int.top(64, False)])
            cell = ("H", "elem")
            st.cells[cell] = elem
            # closure args: (_1 = env, _2 = &elem)
            st.cells[frame.cell(2)] = Ref(cell, ())
        exits, frame = absrun.analyze(eng, clo_body, None, setup)
        vals = set()
        for e in exits:
            v = e.cells.get(frame.cell(0))
            if isinstance(v, Int):
                vals.update(range(v.lo, v.hi + 1))
            else:
                vals.update((0, 1))
        res[label] = vals
    return res


def r_flush_guard(ctx):
    rep = RuleReport("R-FLUSH-GUARD/COMPLETE", "outside flush(), private_flush is reached only on the false edge of `open_tags.iter().any(|t| t.1 is Known)`; "
                     "on that edge the function's result is private_flush's result (the whole buffer is handed over); otherwise nothing is handed over")
    prog = ctx.prog
    sites = 0
    for b in writer_bodies(prog):
        if b.kind == "closure" or b.name in ("flush", "private_flush"):
            continue
        for bb, t, c in b.calls_to(WRITER + "::private_flush"):
            sites += 1
            inst = "%s bb%d" % (b.key, bb)
            rep.instance(inst)
            # find the guarding any()
            guards = []
            for ab, at, ac in b.calls_to("std::iter::Iterator::any"):
                sw = _switch_after_call(b, ab)
                if sw is None:
                    continue
                sbb, st = sw
                false_tgts = [tg for v, tg in st["targets"] if v == 0]
                if not false_tgts:
                    continue
                if b.edge_dominates((sbb, false_tgts[0]), bb):
                    guards.append((ab, at, sbb))
            ok = rep.oblige(bool(guards), "FLUSH-GUARD|%s|dominated" % b.name, b.span,
                            "%s: private_flush is not dominated by the false edge of an `any` scan of the open masters" % inst)
            if not ok:
                continue
            ab, at, sbb = guards[0]
            src = local_sources(b, at["args"][0]["place"]["local"]) if at["args"][0].get("k") in ("copy", "move") else set()
            rep.oblige("field:open_tags" in src, "FLUSH-GUARD|%s|scans-open_tags" % b.name, b.span,
                       "%s: the guarding scan does not iterate over self.open_tags (sources: %s)" % (inst, sorted(src)))
            rep.oblige(not any(x.startswith("call:std::iter::Iterator::") and x.split("::")[-1] in ("take", "skip", "rev", "filter", "skip_while", "take_while", "step_by")
                               for x in src), "FLUSH-GUARD|%s|scans-all" % b.name, b.span, "%s: the guarding scan does not cover every open master (%s)" % (inst, sorted(src)))
            # the closure
            clo = None
            a1 = at["args"][1]
            if a1.get("k") in ("copy", "move"):
                for bb2, i, stmt in b.statements():
                    if stmt["k"] == "assign" and stmt["place"]["local"] == a1["place"]["local"] and stmt["rv"].get("agg") == "closure":
                        clo = prog.bodies.get(strip_generics(stmt["rv"]["def"]))
            if clo is None:
                rep.oblige(False, "FLUSH-GUARD|%s|closure" % b.name, b.span, "%s: cannot resolve the predicate closure of the guarding scan" % inst)
            else:
                r = _closure_true_iff_known(ctx, clo)
                rep.oblige(r == {"Known": {1}, "Unknown": {0}}, "FLUSH-GUARD|%s|predicate" % b.name, clo.span,
                           "%s: the scan's predicate is %s; it must be true exactly for Known-size masters" % (inst, r))
            # completeness: result of the function on the flushing edge is the flush result
            rep.oblige(t["dest"]["local"] == 0 and not t["dest"]["proj"], "FLUSH-COMPLETE|%s|result" % b.name, b.span,
                       "%s: the result of private_flush is not returned as the function's result" % inst)
            # and the other edge returns without touching the destination: covered by R-DEST-OWNER
    if sites < 2:
        raise AnchorLost("R-FLUSH-GUARD: expected at least 2 guarded flush sites (write_explicit_sized, write_raw), found %d" % sites)
    # every public writing entry that completes an element ends in the guarded flush
    for fn in ("write_explicit_sized", "write_raw"):
        b = find_one(prog, "TagWriter::" + fn)
        calls = b.calls_to(WRITER + "::private_flush")
        rep.instance("%s has flush site" % fn)
        rep.oblige(bool(calls), "FLUSH-COMPLETE|%s|has-site" % fn, b.span, "%s never hands the buffer over" % fn)
        # every Ok-returning path goes through the any() scan: the any() call block post-dominates the successful element writes:
        anyc = b.calls_to("std::iter::Iterator::any")
        if anyc:
            abb = anyc[0][0]
            # blocks that return without passing the scan must be error paths: they assign _0 = Err / from_residual
            reach_wo = b.reachable_from(0, stop=frozenset([abb]))
            for rb in b.exits():
                pass
            bad = []
            for blk in sorted(reach_wo):
                for st in b.blocks[blk]["stmts"]:
                    if st["k"] == "assign" and st["place"]["local"] == 0 and not st["place"]["proj"] and st["rv"].get("agg") == "adt" and st["rv"].get("variant") == "Ok":
                        if abb not in b.dominators().get(blk, set()):
                            bad.append(blk)
            rep.oblige(not bad, "FLUSH-COMPLETE|%s|ok-paths" % fn, b.span, "%s returns Ok on a path that skips the flush decision (blocks %s)" % (fn, bad))
    return rep


def _result_edges(body, call_bb):
    """for a call returning Result in block call_bb: (ok_edge, err_edge) of the first test of that result — either `?`
    (Try::branch, then a switch on ControlFlow: Continue = 0) or an explicit match on the Result's discriminant (Ok = 0)"""
    t = body.blocks[call_bb]["term"]
    d = t["dest"]["local"]
    blk = t["target"]
    seen = 0
    while blk is not None and seen < 4:
        seen += 1
        tt = body.blocks[blk]["term"]
        if tt["k"] == "call" and callee_name(tt) == "std::ops::Try::branch" and tt["args"] and tt["args"][0].get("k") in ("copy", "move") \
                and tt["args"][0]["place"]["local"] == d:
            d = tt["dest"]["local"]
            blk = tt["target"]
            continue
        if tt["k"] == "switch":
            dis = [st for st in body.blocks[blk]["stmts"] if st["k"] == "assign" and st["rv"]["k"] == "discr" and st["rv"]["place"]["local"] == d]
            if not dis:
                return None
            ok_t = next((tg for v, tg in tt["targets"] if v == 0), None)
            err_t = next((tg for v, tg in tt["targets"] if v == 1), None)
            if ok_t is None:
                ok_t = tt["otherwise"]
            if err_t is None:
                err_t = tt["otherwise"]
            return (blk, ok_t), (blk, err_t)
        if tt["k"] == "goto":
            blk = tt["target"]
            continue
        return None
    return None


def r_flush_api(ctx):
    rep = RuleReport("R-FLUSH-API", "into_inner() calls flush() before giving up the destination; flush() closes every open master (loop until "
                     "open_tags.last() is None, propagating errors) and then hands everything over")
    prog = ctx.prog
    ii = find_one(prog, "TagWriter::into_inner")
    fl = ii.calls_to(WRITER + "::flush")
    rep.instance("into_inner")
    ok = rep.oblige(bool(fl), "FLUSH-API|into_inner|calls-flush", ii.span, "into_inner does not call flush()")
    if ok:
        fbb = fl[0][0]
        dom = ii.dominators()
        for bb, kind, p in field_accesses(ii, "dest"):
            rep.oblige(fbb in dom.get(bb, set()) and bb != fbb, "FLUSH-API|into_inner|flush-dominates-move", ii.span,
                       "into_inner reads `dest` in bb%d which is not dominated by the flush() call" % bb)
        # the error of flush is propagated: the Ok(dest) exit is reached only through the Continue edge — structural: a Try::branch on flush's result
        # the error of flush is propagated: the destination is given up only on the Ok edge of the test of flush()'s result (`?` or a match)
        edges = _result_edges(ii, fbb)
        good = False
        if edges is not None:
            ok_e, err_e = edges
            reach_err = ii.reachable_from(err_e[1])
            # where the destination is given up: `move self.dest` in a statement (a `drop` of the field on the error path is not a hand-over)
            dest_blocks = set()
            for bb, i, st in ii.statements():
                if st["k"] == "assign":
                    for kind, p in _places_in_stmt(st)[1:]:
                        if any(e["k"] == "field" and e.get("name") == "dest" for e in p["proj"]):
                            dest_blocks.add(bb)
            good = bool(dest_blocks) and not (dest_blocks & reach_err) and all(ii.edge_dominates(ok_e, bb) for bb in dest_blocks)
        rep.oblige(good, "FLUSH-API|into_inner|propagates", ii.span, "into_inner ignores the result of flush() (the destination is handed out on a path where flush() failed)")
    f = find_one(prog, "TagWriter::flush")
    rep.instance("flush")
    pf = f.calls_to(WRITER + "::private_flush")
    et = f.calls_to(WRITER + "::end_tag")
    rep.oblige(bool(pf), "FLUSH-API|flush|delivers", f.span, "flush() does not call private_flush")
    rep.oblige(bool(et), "FLUSH-API|flush|closes", f.span, "flush() does not end open masters")
    # semantically first: an abstract run of flush() from any writer state — at every hand-over to the destination no master is open any more
    sem_ok = False
    try:
        from rules.writer_abs import WriterRun
        from absval import Arr
        from absint import get_at as _get_at
        run = WriterRun(prog, "TagWriter::flush")
        seen = []

        def on_call(call, _run=run):
            if (call.name or "").split("::")[-1] == "private_flush":
                ot = _get_at(call.st.cells[("H", "arg", 1)], (_run.fx["open_tags"],))
                seen.append(isinstance(ot, Arr) and ot.len.hi == 0)
        run.extra_on_call = on_call
        run.run()
        sem_ok = bool(seen) and all(seen)
        rep.instance("flush(): %d hand-over(s) observed abstractly, open-master stack empty at each: %s" % (len(seen), sem_ok))
    except AnchorLost:
        raise
    except Exception as e:  # the structural form below still decides
        rep.notes.append("abstract run of flush() not available: %r" % (e,))
    if sem_ok:
        rep.oblige(True, "FLUSH-API|flush|empty-at-delivery", f.span, "")
    if pf and et and not sem_ok:
        last = f.calls_to("core::slice::last")
        ok = rep.oblige(bool(last), "FLUSH-API|flush|scans-last", f.span, "flush() does not look at open_tags.last()")
        if ok:
            src = local_sources(f, last[0][1]["args"][0]["place"]["local"])
            rep.oblige("field:open_tags" in src, "FLUSH-API|flush|last-of-open_tags", f.span, "flush(): last() is not taken of self.open_tags")
        # private_flush must not be reachable without the loop having seen None: every path to private_flush passes a switch on an Option
        # discriminant with value 0 (None) whose scrutinee derives from last()
        pbb = pf[0][0]
        good = False
        for b in sorted(f.live_blocks()):
            t = f.blocks[b]["term"]
            if t["k"] != "switch" or t["discr"].get("k") not in ("copy", "move"):
                continue
            src = local_sources(f, t["discr"]["place"]["local"])
            if "call:core::slice::last" not in src and "call:std::option::Option::map" not in src:
                continue
            for v, tg in t["targets"]:
                if v == 0 and f.edge_dominates((b, tg), pbb):
                    good = True
            if t["otherwise"] is not None and not any(v == 0 for v, _ in t["targets"]):
                # `[1: some, otherwise: none]`
                if f.edge_dominates((b, t["otherwise"]), pbb):
                    good = True
        rep.oblige(good, "FLUSH-API|flush|none-dominates-delivery", f.span, "flush(): private_flush is reachable while open_tags.last() may still be Some")
    if pf and et:
        pbb = pf[0][0]
        # end_tag's error is propagated
        good = True
        for ebb, _t, _c in et:
            edges = _result_edges(f, ebb)
            if edges is None:
                good = False
                continue
            ok_e, err_e = edges
            reach_err = f.reachable_from(err_e[1])
            # after a failed end_tag nothing is delivered and no further master is closed: the error edge only leads to return
            if pbb in reach_err or any(e2 in reach_err for e2, _, _ in et):
                good = False
        rep.oblige(good, "FLUSH-API|flush|propagates", f.span, "flush() ignores the result of end_tag (delivery or further closing is reachable after a failed end_tag)")
    return rep


def r_shared_matcher(ctx):
    rep = RuleReport("R-SHARED-MATCHER", "reader and writer consult one path matcher (spec_util::validate_tag_path); nothing else decides acceptance from get_path_by_id")
    prog = ctx.prog
    callers = prog.callers_of("spec_util::validate_tag_path")
    roots = set()
    for b, bb, t in callers:
        r = prog.function_root(b)
        roots.add(r.path if r else b.path)
        rep.instance("%s calls the matcher" % b.key)
    rep.oblige(any(r.startswith("tag_iterator::TagIterator") for r in roots), "MATCHER|reader", "src/tag_iterator.rs", "the iterator does not call spec_util::validate_tag_path")
    rep.oblige(any(r.startswith("tag_writer::TagWriter") for r in roots), "MATCHER|writer", "src/tag_writer.rs", "the writer does not call spec_util::validate_tag_path")
    # who else reads the declared paths
    users = set()
    for b in prog.bodies.values():
        if b.crate != "ebml_iterable" or b.promoted_index is not None:
            continue
        for bb, t, c in b.calls():
            if c is not None and strip_generics(c["path"]).endswith("EbmlSpecification::get_path_by_id"):
                r = prog.function_root(b)
                users.add(r.path if r else b.path)
    def seeds_stack(path):
        # the one other legitimate reader: the function that seeds the implied ancestors, i.e. assigns the open-master stack from the path
        b = prog.bodies.get(path)
        if b is None:
            return False
        for bd in [b] + prog.closures_of(path):
            for bb, i, st in bd.statements():
                if st["k"] == "assign" and st["place"]["proj"] and st["place"]["proj"][-1].get("name") == "tag_stack":
                    return True
        return False
    for u in sorted(users):
        ok = u.startswith("spec_util::") or (u.startswith("tag_iterator::TagIterator::") and seeds_stack(u))
        rep.instance("%s reads declared paths%s" % (u, "" if u.startswith("spec_util::") else " (seeds the implied ancestors)" if ok else ""))
        rep.oblige(ok, "MATCHER|path-reader|%s" % u, u, "%s consults get_path_by_id outside the shared matcher / closing rules" % u)
    rep.require_floor(3, "matcher call sites and path readers")
    return rep
