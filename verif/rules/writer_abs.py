"""abstract-interpretation rules over tag_writer.rs (C01, C07, C09, C11, C16, C19).

The writer's public entries are analysed once per *configuration class* of their inputs — the tag's data type as the specification
reports it, the Master form (Start / End / Full), the write options (default, size width k = 1..8, unknown size) — with the
specification-trait calls modelled to return exactly that class.  Ghost state carried through the analysis records
  * whether the shared path matcher has been consulted (`validated`),
  * the sequence of writer-internal calls (`trace`), with the const-generic width they were instantiated with,
  * what happened to the two pieces of writer state (`working_buffer`, `open_tags`): clean / appended-only / otherwise mutated,
and linear constraints relate their lengths to the lengths at entry.
"""
import absrun
from absint import State, get_at, set_at, Infeasible
from absval import Arr, BOT, Enum, Int, Ref, Struct, Top, UNIT, ISIZE_MAX
from core import AnchorLost, RuleReport
from lin import LinForm
import mirlib
from mirlib import strip_generics
from rules.common import find_one
from models import opt_none, opt_some

WRITER = "tag_writer::TagWriter"
TDT = ["Master", "UnsignedInt", "Integer", "Utf8", "Binary", "Float"]
MASTER_FORMS = {"Start": 0, "End": 1, "Full": 2}
A_REC = ("A-REC: a nested write() issued while a Full master is being written either fails leaving the writer state unchanged (the "
         "property itself, used inductively) or succeeds having only appended to the buffer and not closed masters opened before it")


def writer_bodies_list(prog):
    return [b for b in prog.bodies.values() if b.promoted_index is None and b.crate == "ebml_iterable" and
            (b.path.startswith(WRITER + "::") or (b.parent or "").startswith(WRITER + "::"))]


def writer_fields(prog):
    info = prog.adts.get(WRITER)
    if info is None:
        raise AnchorLost("struct %s not found" % WRITER)
    names = [f["name"] for f in info["variants"][0]["fields"]]
    for n in ("dest", "open_tags", "working_buffer"):
        if n not in names:
            raise AnchorLost("field %s of TagWriter not found" % n)
    return {n: i for i, n in enumerate(names)}


def tdt_index(prog, name):
    info = prog.adts.get("TagDataType")
    if info is None:
        raise AnchorLost("enum TagDataType not found")
    for i, v in enumerate(info["variants"]):
        if v["name"] == name:
            return i
    raise AnchorLost("TagDataType::%s not found" % name)


def err_variant_names(prog):
    info = prog.adts.get("errors::tag_writer::TagWriterError")
    if info is None:
        raise AnchorLost("enum TagWriterError not found")
    return [v["name"] for v in info["variants"]]


class WriterRun:
    def __init__(self, prog, entry, tag_type=None, form=None, size_len=None, unknown=False, validate_result=None, cparams=None, stack_elem=None,
                 data_class=None):
        self.prog = prog
        self.entry = entry
        self.tag_type = tag_type        # None -> id not in the specification; else a TagDataType name
        self.form = form                # Start / End / Full for masters
        self.size_len = size_len        # None or k
        self.unknown = unknown
        self.validate_result = validate_result   # None -> both, True / False -> forced
        self.cparams = cparams or {}
        self.stack_elem = stack_elem    # (size_variant 'Known'/'Unknown', width k) of the innermost open master, for end_tag
        self.data_class = data_class    # (lo, hi, bits, signed) of the numeric payload
        self.fx = writer_fields(prog)
        self.events = []                # (kind, detail, ghost snapshot)
        self.exits = None

    # -- models ---------------------------------------------------------------------------------
    def m_get_id(self, c):
        cell = ("G", "id")
        if cell not in c.st.cells:
            c.st.cells[cell] = Int.top(64, False)
        c.ret(c.st.cells[cell], LinForm.var((cell, ())))

    def m_get_type(self, c):
        if self.tag_type is None:
            c.ret(opt_none())
        else:
            c.ret(opt_some(Enum("TagDataType", {tdt_index(self.prog, self.tag_type): ()})))

    def m_as_master(self, c):
        if self.tag_type != "Master" or self.form is None:
            c.ret(opt_none() if self.tag_type != "Master" else Top())
            return
        st = c.st
        vi = MASTER_FORMS[self.form]
        pay = ()
        if self.form == "Full":
            pay = (Arr(Int(0, ISIZE_MAX, 64, False), Top(), None, "vec"),)
        cell = ("G", "master")
        st.cells[cell] = Enum("Master", {vi: pay})
        c.ret(opt_some(Ref(cell, ())))

    def m_accessor(self, c):
        nm = c.name.split("::")[-1]
        want = {"as_unsigned_int": "UnsignedInt", "as_signed_int": "Integer", "as_utf8": "Utf8", "as_binary": "Binary", "as_float": "Float"}[nm]
        ok = (self.tag_type == want) or (self.tag_type is None and nm == "as_binary")
        if not ok:
            c.ret(opt_none())
            return
        st = c.st
        cell = ("G", "payload", nm)
        if nm in ("as_unsigned_int", "as_signed_int"):
            signed = nm == "as_signed_int"
            if self.data_class is not None:
                lo, hi = self.data_class
                st.cells[cell] = Int(lo, hi, 64, signed) if lo != hi else Int.const(lo, 64, signed)
            else:
                st.cells[cell] = Int.top(64, signed)
        elif nm == "as_float":
            st.cells[cell] = Top()
        else:
            st.cells[cell] = Arr(Int(0, ISIZE_MAX, 64, False), Int.top(8, False), None, "str" if nm == "as_utf8" else "slice")
        c.ret(opt_some(Ref(cell, ())))

    def m_validate(self, c):
        st = c.st
        self.event(c, "validate", None)
        st.ghost["validated"] = 1
        st.ghost["trace"] = (st.ghost.get("trace") or ()) + ("validate_tag_path",) if st.ghost.get("trace") is not None else None
        if self.validate_result is None:
            s0 = c.fork()
            c.ret(Int.const(0, 1, False), st=s0)
            c.ret(Int.const(1, 1, False))
        else:
            c.ret(Int.const(1 if self.validate_result else 0, 1, False))

    # -- ghost state -----------------------------------------------------------------------------------
    def event(self, c, kind, detail):
        g = c.st.ghost
        self.events.append((kind, detail, {"validated": g.get("validated"), "wb": g.get("wb"), "ot": g.get("ot"), "fn": c.frame.body.name}))

    def which(self, loc):
        if loc is None or loc[0] != ("H", "arg", 1):
            return None
        if loc[1][:1] == (self.fx["working_buffer"],):
            return "wb"
        if loc[1][:1] == (self.fx["open_tags"],):
            return "ot"
        return None

    def on_elem_write(self, st, loc, val):
        """an element of the buffer or of the open-master stack is overwritten in place (last_mut(), get_mut(), iter_mut(), indexing)"""
        w = self.which(loc)
        if w is None:
            return
        g = st.ghost
        self.events.append(("mutate", (w, "element-write"), {"validated": g.get("validated"), "wb": g.get("wb"), "ot": g.get("ot"), "fn": "?"}))
        st.ghost[w] = "dirty"

    def on_mutate(self, call, loc, op, **kw):
        w = self.which(loc)
        if w is None:
            return
        st = call.st
        cur = st.ghost.get(w, "clean")
        detail = (w, op)
        if w == "wb":
            if op == "push":
                v = kw.get("value")
                detail = (w, op, (v.lo if isinstance(v, Int) and v.is_const() else None))
            elif op == "append" and kw.get("slice") is not None:
                sa = kw["slice"]
                n = sa.len.lo if isinstance(sa.len, Int) and sa.len.is_const() else None
                bs = None
                if n is not None and all(isinstance(sa.cells.get(i), Int) and sa.cells[i].is_const() for i in range(n)):
                    bs = tuple(sa.cells[i].lo for i in range(n))
                detail = (w, op, ("slice", n, bs))
            elif op == "append" and kw.get("iter") is not None:
                it = kw["iter"]
                r = getattr(it, "remaining", None)
                detail = (w, op, ("iter", (r.lo, r.hi) if isinstance(r, Int) else None))
        self.event(call, "mutate", detail)
        if op in ("append", "push"):
            if cur in ("clean", "appended"):
                st.ghost[w] = "appended"
            return
        if op == "truncate":
            # restoring idiom: truncate to the length saved at entry, after appends only
            n_lin = kw.get("n_lin")
            l0 = LinForm.var((("G", w + "0"), ()))
            if cur in ("clean", "appended") and n_lin is not None and st.entails_eq(n_lin - l0):
                st.ghost[w] = "restorable"
                return
            st.ghost[w] = "dirty"
            return
        st.ghost[w] = "dirty"

    def on_call(self, call):
        if getattr(self, "extra_on_call", None) is not None:
            self.extra_on_call(call)
        nm = call.name or ""
        st = call.st
        if nm.split("::")[-1] in ("as_vint", "as_vint_with_length", "size_as_vint", "size_as_vint_with_length") and (nm.startswith("tools::") or nm.startswith("tag_writer::")):
            # which size-field encoder is reached, with its width parameter (R-WIDTH-TABLE, element classes)
            cgs = ""
            for a in (call.callee.get("args") or []):
                if a.get("k") == "cval":
                    cgs = "<%s>" % a["v"]
                elif a.get("k") == "cparam":
                    v = call.frame.cparams.get(a["name"])
                    cgs = "<%s>" % (v if v is not None else a["name"])
            self.event(call, "enc", nm.split("::")[-1] + cgs)
        if not nm.startswith(WRITER + "::") and not nm.startswith("tag_writer::size_as_vint"):
            return
        short = nm.split("::")[-1]
        if short in ("write", "write_advanced"):
            return
        cg = ""
        for a in (call.callee.get("args") or []):
            if a.get("k") == "cval":
                cg = "<%s>" % a["v"]
            elif a.get("k") == "cparam":
                v = call.frame.cparams.get(a["name"])
                cg = "<%s>" % (v if v is not None else a["name"])
        tr = st.ghost.get("trace")
        if tr is not None:
            st.ghost["trace"] = tr + (short + cg,)
        self.event(call, "call", short + cg)
        if short == "private_flush":
            # what the open-master stack looks like at the moment the buffer is handed to the destination
            ot = get_at(st.cells[("H", "arg", 1)], (self.fx["open_tags"],))
            no_known = None
            if isinstance(ot, Arr):
                sz = ot.elem.fields[1] if isinstance(ot.elem, Struct) and len(ot.elem.fields) > 1 else None
                no_known = (ot.len.hi == 0) or (isinstance(sz, Enum) and 0 not in sz.variants) or ot.elem.is_bot()
            self.flushes = getattr(self, "flushes", []) + [(call.frame.body.name, bool(no_known), str(call.span))]
            st.ghost["flushed"] = 1
        if short in ("start_tag", "start_unknown_size_tag", "end_tag", "write_explicit_sized") or short.startswith("write_"):
            # id argument identity
            pass

    def on_aggregate(self, st, frame, rv, span, place=None):
        if rv.get("agg") == "adt" and strip_generics(rv["path"]) == "errors::tag_writer::TagWriterError":
            st.tag = tuple(x for x in st.tag if x[0] != "err") + (("err", rv["variant"]),)
            st.ghost["err_id_ok"] = None
            # the offending id carried by the error equals the tag's id?
            if rv["variant"] in ("UnexpectedTag", "TagIdError", "UnexpectedClosingTag") and rv["ops"]:
                pass

    def summary_write(self, c, body):
        """recursive write() of a child of a Full master (A-REC)"""
        st = c.st
        cell = ("H", "arg", 1)
        self.event(c, "recursive-write", None)
        # Err: state unchanged
        s_err = c.fork()
        s_err.tag = tuple(x for x in s_err.tag if x[0] != "err") + (("err", "<child>"),)
        c.ret(Enum("std::result::Result", {1: (Top(),)}), st=s_err)
        # Ok: appended only
        for w in ("working_buffer",):
            loc = (cell, (self.fx[w], "len"))
            old = st.leaf(loc)
            if old is not None:
                tmp = ("G", "reclen")
                st.kill_cell(tmp)
                st.cells[tmp] = old
                st.cons.add_eq(LinForm.var((tmp, ())) - LinForm.var(loc))
                c.I.write_loc(st, loc, Int(old.lo, ISIZE_MAX, 64, False))
                st.add_le(LinForm.var((tmp, ())) - LinForm.var(loc), True)
                st.kill_cell(tmp)
        if st.ghost.get("wb", "clean") in ("clean", "appended"):
            st.ghost["wb"] = "appended"
        c.I.assumptions.add(A_REC)
        c.ret(Enum("std::result::Result", {0: (UNIT,)}))

    # -- run ---------------------------------------------------------------------------------------
    def run(self):
        prog = self.prog
        body = find_one(prog, self.entry)
        eng = absrun.make_engine(prog, no_inline=["spec_util::validate_tag_path"], summaries={WRITER + "::write": self.summary_write},
                                 always_summarize=[WRITER + "::write"])
        eng.models = dict(eng.models)
        eng.models["#prefix"] = [(p, f) for (p, f) in eng.models["#prefix"] if not p.startswith(("ebml_iterable_specification::", "EbmlSpecification::", "EbmlTag::"))]
        for nm, fn in (("get_id", self.m_get_id), ("as_master", self.m_as_master)):
            eng.models["ebml_iterable_specification::EbmlTag::" + nm] = fn
        for nm in ("as_unsigned_int", "as_signed_int", "as_utf8", "as_binary", "as_float"):
            eng.models["ebml_iterable_specification::EbmlTag::" + nm] = self.m_accessor
        eng.models["ebml_iterable_specification::EbmlSpecification::get_tag_data_type"] = self.m_get_type
        eng.models["spec_util::validate_tag_path"] = self.m_validate
        eng.on("mutate", self.on_mutate)
        eng.on("elem_write", self.on_elem_write)
        eng.on("call", self.on_call)
        eng.on("aggregate", self.on_aggregate)
        self.eng = eng
        fx = self.fx

        def setup(eng_, st, frame):
            r = st.cells[frame.cell(1)]
            cell = r.cell
            v = st.cells[cell]
            ot_elem = Struct("tuple", [Int.top(64, False), Enum("tag_iterator_util::EBMLSize", {0: (Int(0, ISIZE_MAX, 64, False),), 1: ()}), Int(0, 8, 64, False)])
            if self.stack_elem is not None:
                sv, k = self.stack_elem
                size = Enum("tag_iterator_util::EBMLSize", {0: (Int(0, ISIZE_MAX, 64, False),)} if sv == "Known" else ({1: ()} if sv == "Unknown" else
                                                                {0: (Int(0, ISIZE_MAX, 64, False),), 1: ()}))
                ot_elem = Struct("tuple", [Int.top(64, False), size, Int.const(k, 64, False) if k is not None else Int(0, 8, 64, False)])
                v = set_at(v, (fx["open_tags"],), Arr(Int(1 if sv != "Mixed" else 0, ISIZE_MAX, 64, False), ot_elem, None, "vec"))
            else:
                v = set_at(v, (fx["open_tags"],), Arr(Int(0, ISIZE_MAX, 64, False), ot_elem, None, "vec"))
            v = set_at(v, (fx["working_buffer"],), Arr(Int(0, ISIZE_MAX, 64, False), Int.top(8, False), None, "vec"))
            st.cells[cell] = v
            for w, f in (("wb", "working_buffer"), ("ot", "open_tags")):
                g = ("G", w + "0")
                st.cells[g] = get_at(v, (fx[f], "len"))
                st.cons.add_eq(LinForm.var((g, ())) - LinForm.var((cell, (fx[f], "len"))))
                st.ghost[w] = "clean"
            st.ghost["validated"] = 0
            st.ghost["flushed"] = 0
            st.ghost["trace"] = ()
            # options argument of write_advanced
            if body.name == "write_advanced":
                sbl = Enum("std::option::Option", {0: ()}) if self.size_len is None else Enum("std::option::Option", {1: (Int.const(self.size_len, 64, False),)})
                st.cells[frame.cell(3)] = Struct("tag_writer::WriteOptions", [sbl, Int.const(1 if self.unknown else 0, 1, False)])
            if body.name in ("start_unknown_size_tag", "start_tag"):
                st.cells[frame.cell(2)] = Int.top(64, False)
            if body.name == "end_tag" and self.stack_elem is not None:
                # closing the innermost master: same id
                idc = ("G", "id")
                st.cells[idc] = Int.top(64, False)
                st.cells[frame.cell(2)] = st.cells[idc]
                st.cons.add_eq(LinForm.var((frame.cell(2), ())) - LinForm.var((idc, ())))
        exits, frame = absrun.analyze(eng, body, self.cparams, setup)
        self.exits, self.frame = exits, frame
        return self

    # -- results -----------------------------------------------------------------------------------------
    def exit_info(self):
        """per exit state: (kind, err_tag, ghost, restored{wb,ot})"""
        out = []
        cell = ("H", "arg", 1)
        for e in self.exits:
            v = e.cells.get(self.frame.cell(0))
            kinds = set()
            if isinstance(v, Enum):
                kinds = {"Ok" if i == 0 else "Err" for i in v.variants}
            et = [x[1] for x in e.tag if x[0] == "err" and x[1] == "<child>"]
            if not et and isinstance(v, Enum) and 1 in v.variants and v.variants[1] and isinstance(v.variants[1][0], Enum):
                # which error: read off the returned value (an error value may be built eagerly on a path that then succeeds)
                ev = v.variants[1][0]
                info = self.eng.adt_info(ev.path)
                names = [info["variants"][i]["name"] if info else str(i) for i in sorted(ev.variants)]
                et = ["|".join(names)]
            if not et:
                et = [x[1] for x in e.tag if x[0] == "err"]
            rest = {}
            for w, f in (("wb", "working_buffer"), ("ot", "open_tags")):
                rest[w] = e.entails_eq(LinForm.var((cell, (self.fx[f], "len"))) - LinForm.var((("G", w + "0"), ())))
            out.append({"kinds": kinds, "err": et[0] if et else None, "ghost": dict(e.ghost), "len_restored": rest})
        return out


# ----------------------------------------------------------------------------------------------------------
# C11
# ----------------------------------------------------------------------------------------------------------
def r_writer_validates(ctx):
    rep = RuleReport("R-WRITER-VALIDATES", "per class of (data type, master form, options): the writer consults the shared matcher before the first "
                     "mutation of its state exactly when the tag is a specified non-End tag (including unknown-size masters and Full masters); a "
                     "rejected tag yields UnexpectedTag and no mutation")
    prog = ctx.prog
    cases = []
    for form in ("Start", "Full", "End"):
        cases.append(("TagWriter::write_advanced", "Master", form, False, form != "End"))
    for t in ("UnsignedInt", "Binary"):
        cases.append(("TagWriter::write_advanced", t, None, False, True))
    cases.append(("TagWriter::write_advanced", None, None, False, False))
    cases.append(("TagWriter::write_advanced", "Master", "Start", True, True))
    cases.append(("TagWriter::write_unknown_size", "Master", "Start", True, True))
    for entry, t, form, unknown, must in cases:
        run = WriterRun(prog, entry, tag_type=t, form=form, unknown=unknown).run()
        inst = "%s type=%s form=%s unknown=%s" % (entry.split("::")[-1], t, form, unknown)
        rep.instance(inst)
        rep.analysed.append(entry)
        muts = [(k, d, g) for (k, d, g) in run.events if k == "mutate" or (k == "call" and d.split("<")[0] in ("write_explicit_sized", "start_unknown_size_tag", "start_tag", "end_tag"))]
        first_unvalidated = [m for m in muts if m[2]["validated"] != 1]
        validated_somewhere = any(k == "validate" for (k, d, g) in run.events)
        key = "WRITER-VALIDATES|%s|%s|%s|%s" % (entry.split("::")[-1], t, form, "unknown" if unknown else "sized")
        if must:
            rep.oblige(bool(muts) and not first_unvalidated and validated_somewhere, key, "src/tag_writer.rs",
                       "%s: the writer state is touched (%s) before validate_tag_path has been consulted" % (inst, [(m[0], m[1]) for m in first_unvalidated][:3]))
        else:
            rep.oblige(bool(muts), key + "|anchor", "src/tag_writer.rs", "%s: no writer action observed (anchor)" % inst)
        if form == "Full":
            # the children of a Full master are tags like any other: they must go through the validating entry (the recursive write() that this
            # analysis summarises), not through a private routine behind the path check
            rec = [1 for (k, d, g) in run.events if k == "recursive-write"]
            rep.oblige(bool(rec), key + "|children-validated", "src/tag_writer.rs",
                       "%s: the children of a Full master are not written through write()/write_advanced(), which is where the path check lives" % inst)
        # rejection: forced false result
        if must:
            run2 = WriterRun(prog, entry, tag_type=t, form=form, unknown=unknown, validate_result=False).run()
            infos = run2.exit_info()
            errs = {i["err"] for i in infos}
            kinds = set().union(*[i["kinds"] for i in infos]) if infos else set()
            muts2 = [m for m in run2.events if m[0] == "mutate"]
            rep.oblige(kinds == {"Err"} and errs == {"UnexpectedTag"} and not muts2, key + "|reject", "src/tag_writer.rs",
                       "%s with the matcher answering false: exits %s / errors %s / mutations %s (expected Err(UnexpectedTag), none)" % (inst, sorted(kinds), sorted(map(str, errs)), len(muts2)))
    # non-master with unknown size: TagSizeError, no mutation, both entries
    for entry in ("TagWriter::write_advanced", "TagWriter::write_unknown_size"):
        run = WriterRun(prog, entry, tag_type="Binary", unknown=True).run()
        infos = run.exit_info()
        errs = {i["err"] for i in infos}
        muts = [m for m in run.events if m[0] == "mutate"]
        rep.instance("%s unknown-size on a non-master" % entry.split("::")[-1])
        rep.oblige(errs == {"TagSizeError"} and not muts, "WRITER-VALIDATES|%s|nonmaster-unknown" % entry.split("::")[-1], "src/tag_writer.rs",
                   "%s: unknown size on a non-master gives %s with %d mutations (expected TagSizeError, none)" % (entry, sorted(map(str, errs)), len(muts)))
    rep.require_floor(9, "configuration classes")
    return rep


# ----------------------------------------------------------------------------------------------------------
# C09
# ----------------------------------------------------------------------------------------------------------
def _ok_trace(run):
    tr = set()
    for e in run.exits:
        v = e.cells.get(run.frame.cell(0))
        if isinstance(v, Enum) and 0 in v.variants and not [x for x in e.tag if x[0] == "err"]:
            tr.add(e.ghost.get("trace"))
    return tr


def r_width_table(ctx):
    rep = RuleReport("R-WIDTH-TABLE", "a requested size width k (1..8) reaches write_explicit_sized::<k>, start_tag stores k, and end_tag encodes the "
                     "size with size_as_vint_with_length::<k>; no width / width 0 uses the minimal encoder; unknown size never enters the sized path")
    prog = ctx.prog
    for k in [None] + list(range(1, 9)):
        run = WriterRun(prog, "TagWriter::write_advanced", tag_type="Master", form="Start", size_len=k, validate_result=True).run()
        want = "write_explicit_sized<%d>" % (k or 0)
        calls = [d for (kd, d, g) in run.events if kd == "call" and d.startswith("write_explicit_sized")]
        starts = [d for (kd, d, g) in run.events if kd == "call" and d.startswith("start_tag")]
        rep.instance("write_advanced width=%s -> %s" % (k, sorted(set(calls))))
        rep.oblige(set(calls) == {want}, "WIDTH-TABLE|dispatch|k=%s" % k, "src/tag_writer.rs", "size width %s dispatches to %s (expected %s)" % (k, sorted(set(calls)), want))
        # the stored width
        cell = ("H", "arg", 1)
        stored = set()
        for e in run.exits:
            ot = get_at(e.cells[cell], (run.fx["open_tags"],))
            if isinstance(ot, Arr) and isinstance(ot.elem, Struct):
                w = ot.elem.fields[2]
                stored.add((w.lo, w.hi) if isinstance(w, Int) else None)
        pushes = [d for (kd, d, g) in run.events if kd == "mutate" and d[0] == "ot" and d[1] == "push"]
        rep.oblige(bool(starts) or bool(pushes), "WIDTH-TABLE|start|k=%s" % k, "src/tag_writer.rs", "Master::Start with width %s neither calls start_tag nor pushes onto the open-master stack" % k)
    # start_tag stores its argument
    for k in range(0, 9):
        run = WriterRun(prog, "TagWriter::write_explicit_sized", tag_type="Master", form="Start", cparams={"SIZE_LENGTH": k})
        run.run_explicit = True
        _run_explicit(run)
        cell = ("H", "arg", 1)
        stored = set()
        for e in run.exits:
            ot = get_at(e.cells[cell], (run.fx["open_tags"],))
            if isinstance(ot, Arr):
                el = ot.elem
                if isinstance(el, Struct):
                    w = el.fields[2]
                    stored.add((w.lo, w.hi) if isinstance(w, Int) else None)
        rep.instance("write_explicit_sized::<%d> Start stores width %s" % (k, sorted(map(str, stored))))
        rep.oblige(all(s is not None and s[0] <= k <= s[1] for s in stored) and bool(stored), "WIDTH-TABLE|stored|k=%d" % k, "src/tag_writer.rs",
                   "start of a master with width %d stores %s" % (k, stored))
    # end_tag uses the stored width
    for k in range(0, 9):
        run = WriterRun(prog, "TagWriter::end_tag", stack_elem=("Known", k)).run()
        enc = sorted({d for (kd, d, g) in run.events if kd == "call" and d.startswith("size_as_vint")})
        want = ["size_as_vint_with_length<%d>" % k] if k > 0 else ["size_as_vint"]
        rep.instance("end_tag stored width %d -> %s" % (k, enc))
        rep.oblige(enc == want, "WIDTH-TABLE|end|k=%d" % k, "src/tag_writer.rs", "end_tag with stored width %d encodes the size with %s (expected %s)" % (k, enc, want))
    run = WriterRun(prog, "TagWriter::end_tag", stack_elem=("Unknown", 0)).run()
    enc = sorted({d for (kd, d, g) in run.events if kd == "call" and d.startswith("size_as_vint")})
    muts = [(d) for (kd, d, g) in run.events if kd == "mutate" and d[0] == "wb"]
    rep.instance("end_tag of an unknown-size master -> %s, buffer mutations %s" % (enc, muts))
    rep.oblige(not enc and not muts, "WIDTH-TABLE|end|unknown", "src/tag_writer.rs", "ending an unknown-size master writes a size field (%s, %s)" % (enc, muts))
    # elements other than masters: the width requested for the call is the width of the size field that is written, for every data type and for
    # ids outside the specification (raw tags); no width / width 0 uses the minimal form.  Decided by which size-field encoder is reached from
    # write_explicit_sized::<k> (through whatever helpers): with k > 0 only fixed-width encoders instantiated with k, never the minimal one.
    for t in ["UnsignedInt", "Integer", "Utf8", "Binary", "Float", None]:
        for k in range(0, 9):
            run = WriterRun(prog, "TagWriter::write_explicit_sized", tag_type=t, cparams={"SIZE_LENGTH": k})
            run.run_explicit = True
            _run_explicit(run)
            encs = sorted({d for (kd, d, g) in run.events if kd == "enc"})
            fixed = [e for e in encs if "with_length" in e]
            minimal = [e for e in encs if "with_length" not in e]
            oks = [e for e in run.exits if not [x for x in e.tag if x[0] == "err"]]
            rep.instance("write_explicit_sized::<%d> of a %s element -> size encoders %s" % (k, t or "raw (id outside the specification)", encs))
            rep.oblige(bool(oks), "WIDTH-TABLE|elem|%s|k=%d|writes" % (t, k), "src/tag_writer.rs", "write_explicit_sized::<%d> never succeeds for a %s element" % (k, t))
            if k > 0:
                good = bool(fixed) and all(e.endswith("<%d>" % k) for e in fixed) and not minimal
                rep.oblige(good, "WIDTH-TABLE|elem|%s|k=%d" % (t, k), "src/tag_writer.rs",
                           "a %s element written with size width %d reaches the size encoders %s (expected only fixed-width encoders instantiated with %d)" % (t or "raw", k, encs, k))
            # k = 0: the minimal form is R-SIZE-TABLE's business (the minimal encoder itself widens by one byte to avoid the reserved pattern)
    rep.require_floor(28 + 54, "width classes")
    return rep


def _run_explicit(run):
    """write_explicit_sized takes (self, tag, tag_id, tag_type): set args accordingly"""
    prog = run.prog
    body = find_one(prog, run.entry)
    eng = absrun.make_engine(prog, no_inline=["spec_util::validate_tag_path"], summaries={WRITER + "::write": run.summary_write},
                             always_summarize=[WRITER + "::write"])
    eng.models = dict(eng.models)
    eng.models["#prefix"] = [(p, f) for (p, f) in eng.models["#prefix"] if not p.startswith(("ebml_iterable_specification::", "EbmlSpecification::", "EbmlTag::"))]
    eng.models["ebml_iterable_specification::EbmlTag::get_id"] = run.m_get_id
    eng.models["ebml_iterable_specification::EbmlTag::as_master"] = run.m_as_master
    for nm in ("as_unsigned_int", "as_signed_int", "as_utf8", "as_binary", "as_float"):
        eng.models["ebml_iterable_specification::EbmlTag::" + nm] = run.m_accessor
    eng.models["ebml_iterable_specification::EbmlSpecification::get_tag_data_type"] = run.m_get_type
    eng.models["spec_util::validate_tag_path"] = run.m_validate
    eng.on("mutate", run.on_mutate)
    eng.on("call", run.on_call)
    eng.on("aggregate", run.on_aggregate)
    run.eng = eng
    fx = run.fx

    def setup(eng_, st, frame):
        r = st.cells[frame.cell(1)]
        cell = r.cell
        v = st.cells[cell]
        v = set_at(v, (fx["open_tags"],), Arr(Int.const(0, 64, False), BOT, None, "vec"))
        v = set_at(v, (fx["working_buffer"],), Arr(Int(0, ISIZE_MAX, 64, False), Int.top(8, False), None, "vec"))
        st.cells[cell] = v
        for w, f in (("wb", "working_buffer"), ("ot", "open_tags")):
            g = ("G", w + "0")
            st.cells[g] = get_at(v, (fx[f], "len"))
            if not st.cells[g].is_const():
                st.cons.add_eq(LinForm.var((g, ())) - LinForm.var((cell, (fx[f], "len"))))
            st.ghost[w] = "clean"
        st.ghost["validated"] = 1
        st.ghost["trace"] = ()
        idc = ("G", "id")
        st.cells[idc] = Int.top(64, False)
        st.cells[frame.cell(3)] = st.cells[idc]
        st.cons.add_eq(LinForm.var((frame.cell(3), ())) - LinForm.var((idc, ())))
        if run.tag_type is None:
            st.cells[frame.cell(4)] = opt_none()
        else:
            st.cells[frame.cell(4)] = opt_some(Enum("TagDataType", {tdt_index(prog, run.tag_type): ()}))
    exits, frame = absrun.analyze(eng, body, run.cparams, setup)
    run.exits, run.frame = exits, frame
    return run


def r_deprecated_eq(ctx):
    rep = RuleReport("R-DEPRECATED-EQ", "write_unknown_size(tag) and write_advanced(tag, is_unknown_sized_element()) perform the same sequence of writer "
                     "actions per data-type class")
    prog = ctx.prog
    for t in ("Master", "Binary", None):
        a = WriterRun(prog, "TagWriter::write_advanced", tag_type=t, form="Start" if t == "Master" else None, unknown=True, validate_result=True).run()
        b = WriterRun(prog, "TagWriter::write_unknown_size", tag_type=t, form="Start" if t == "Master" else None, unknown=True, validate_result=True).run()
        ta = [d for (k, d, g) in a.events if k in ("call", "validate", "mutate")]
        tb = [d for (k, d, g) in b.events if k in ("call", "validate", "mutate")]
        ea, eb = sorted(str(i["err"]) for i in a.exit_info()), sorted(str(i["err"]) for i in b.exit_info())
        rep.instance("type=%s: %s" % (t, ta))
        rep.oblige(ta == tb and ea == eb, "DEPRECATED-EQ|%s" % t, "src/tag_writer.rs", "type %s: option-based %s/%s vs deprecated %s/%s" % (t, ta, ea, tb, eb))
    rep.require_floor(3, "type classes")
    return rep


def r_full_eq(ctx):
    rep = RuleReport("R-FULL-EQ", "abstract interpretation of write_advanced for a master presented as Full, as Start and as End: the Full form performs "
                     "exactly the writer actions of the Start form (before any child), then the recursive child writes, then exactly the "
                     "actions of the End form — same callees with the same width parameters, same bytes pushed")
    prog = ctx.prog

    def actions(run):
        # width parameters are R-WIDTH-TABLE's business (the Full form's own push is summarised before its pop); the rollback of a failed
        # Full write (truncate) is R-ATOMIC's
        calls = ["size_as_vint*" if d.startswith("size_as_vint") else d for (k, d, g) in run.events if k == "call" and d not in ("private_flush",)]
        muts = [d for (k, d, g) in run.events if k == "mutate" and "truncate" not in str(d)]
        return calls, muts
    for k in (None, 1, 4):
        rS = WriterRun(prog, "TagWriter::write_advanced", tag_type="Master", form="Start", size_len=k, validate_result=True).run()
        rE = WriterRun(prog, "TagWriter::write_advanced", tag_type="Master", form="End", size_len=k, validate_result=True, stack_elem=("Known", k)).run()
        rF = WriterRun(prog, "TagWriter::write_advanced", tag_type="Master", form="Full", size_len=k, validate_result=True).run()
        cS, mS = actions(rS)
        cE, mE = actions(rE)
        cF, mF = actions(rF)
        evF = [(kd, d) for (kd, d, g) in rF.events]
        rec = [i for i, (kd, d) in enumerate(evF) if kd == "recursive-write"]
        rep.instance("width=%s: Full calls %s" % (k, sorted(set(cF))))
        rep.oblige(bool(rec), "FULL-EQ|children|w=%s" % k, "src/tag_writer.rs", "the Full form never writes its children (no recursive write reached)")
        want = set(cS) | set(cE)
        rep.oblige(set(cF) == want, "FULL-EQ|same-actions|w=%s" % k, "src/tag_writer.rs",
                   "the Full form calls %s; Start and End forms together call %s" % (sorted(set(cF)), sorted(want)))
        rep.oblige(set(map(str, mF)) == set(map(str, mS)) | set(map(str, mE)), "FULL-EQ|same-mutations|w=%s" % k, "src/tag_writer.rs",
                   "the Full form mutates the writer state with %s; Start and End forms together with %s" % (sorted(set(map(str, mF))), sorted(set(map(str, mS)) | set(map(str, mE)))))
        if rec:
            first_child = rec[0]
            idx = {d: [i for i, (kd, d2) in enumerate(evF) if kd == "call" and d2 == d] for d in set(cF)}
            # the master is opened: a call of start_tag, or (start_tag inlined) a push onto the open-master stack
            st_i = idx.get("start_tag", []) + [i for i, (kd, d2) in enumerate(evF) if kd == "mutate" and d2[0] == "ot" and d2[1] == "push"]
            en_i = idx.get("end_tag", [])
            rep.oblige(bool(st_i) and min(st_i) < first_child, "FULL-EQ|start-before-children|w=%s" % k, "src/tag_writer.rs", "the master is not opened before its children are written")
            rep.oblige(bool(en_i) and max(en_i) > first_child, "FULL-EQ|end-after-children|w=%s" % k, "src/tag_writer.rs", "the master is not closed after its children are written")
    rep.require_floor(3, "width classes")
    return rep


def _root_name(body, op):
    if op.get("k") not in ("copy", "move"):
        return "?"
    l = op["place"]["local"]
    for _ in range(4):
        nm = body.local_name(l)
        if nm:
            return nm
        nxt = None
        for bb, i, st in body.statements():
            if st["k"] == "assign" and st["place"]["local"] == l and not st["place"]["proj"] and st["rv"]["k"] == "use" and st["rv"]["op"].get("k") in ("copy", "move"):
                nxt = st["rv"]["op"]["place"]["local"]
        if nxt is None:
            if 1 <= l <= body.arg_count:
                return "arg%d" % l
            return "_"
        l = nxt
    return "_"


# ----------------------------------------------------------------------------------------------------------
# C19
# ----------------------------------------------------------------------------------------------------------
def r_atomic(ctx):
    rep = RuleReport("R-ATOMIC", "per class of (entry, data type, master form, width): on every path that ends in an error other than WriteError the two "
                     "pieces of writer state are unchanged — never touched, or appended to and then truncated back to the lengths saved at entry")
    prog = ctx.prog
    cases = []
    for k in (None, 1, 4):
        for t in ("UnsignedInt", "Integer", "Utf8", "Binary", "Float", None):
            cases.append(("TagWriter::write_advanced", t, None, k, False, None))
        for form in ("Start", "End", "Full"):
            cases.append(("TagWriter::write_advanced", "Master", form, k, False, None))
    cases.append(("TagWriter::write_advanced", "Master", "Start", None, True, None))
    cases.append(("TagWriter::write_advanced", "Binary", None, None, True, None))
    cases.append(("TagWriter::write_unknown_size", "Master", "Start", None, True, None))
    cases.append(("TagWriter::write_raw", None, None, None, False, None))
    for k in (0, 1, 8):
        cases.append(("TagWriter::end_tag", None, None, None, False, ("Known", k)))
    cases.append(("TagWriter::end_tag", None, None, None, False, ("Unknown", 0)))
    cases.append(("TagWriter::end_tag", None, None, None, False, None))
    for entry, t, form, k, unknown, se in cases:
        run = WriterRun(prog, entry, tag_type=t, form=form, size_len=k, unknown=unknown, stack_elem=se).run()
        inst = "%s type=%s form=%s width=%s unknown=%s stack=%s" % (entry.split("::")[-1], t, form, k, unknown, se)
        rep.instance(inst)
        rep.analysed.append(entry)
        for a in run.eng.assumptions:
            if a.startswith("A-REC") and a not in rep.assumed:
                rep.assumed.append(a)
        n_err = 0
        for i in run.exit_info():
            if "Err" not in i["kinds"]:
                continue
            if i["err"] in ("WriteError",):
                continue
            n_err += 1
            g = i["ghost"]
            for w in ("wb", "ot"):
                status = g.get(w)
                ok = status == "clean" or (status in ("restorable",) and i["len_restored"][w]) or (status == "clean" and i["len_restored"][w])
                key = "ATOMIC|%s|%s|%s|%s|%s" % (entry.split("::")[-1], t, form, i["err"], w)
                rep.oblige(ok, key, "src/tag_writer.rs", "%s: error %s is returned with %s in state '%s' (length restored: %s)" %
                           (inst, i["err"], {"wb": "working_buffer", "ot": "open_tags"}[w], status, i["len_restored"][w]))
        rep.samples.append({"case": inst, "error_exits": n_err})
    rep.require_floor(30, "configuration classes")
    if rep.obligations < 20:
        raise AnchorLost("R-ATOMIC: only %d error exits analysed" % rep.obligations)
    return rep


# ----------------------------------------------------------------------------------------------------------
# C10 / C09: the flush decision, semantically
# ----------------------------------------------------------------------------------------------------------
def r_flush_sem(ctx):
    rep = RuleReport("R-FLUSH-GUARD", "abstract interpretation of every writing entry per class of (data type, master form, options) and per content "
                     "class of the open-master stack (all known-size / all unknown-size / mixed or empty): whenever the buffer is handed to the "
                     "destination (private_flush) outside flush()/into_inner(), no known-size master is open; and an element or a master End written "
                     "while no known-size master is open is handed over before the call returns Ok")
    prog = ctx.prog
    cases = []
    for t in ("UnsignedInt", "Binary", None):
        cases.append(("TagWriter::write_advanced", t, None, None, False))
    for form in ("Start", "End", "Full"):
        cases.append(("TagWriter::write_advanced", "Master", form, None, False))
    cases.append(("TagWriter::write_advanced", "Master", "Start", None, True))
    cases.append(("TagWriter::write_unknown_size", "Master", "Start", None, True))
    cases.append(("TagWriter::write_raw", None, None, None, False))
    n_flush = 0
    for entry, t, form, k, unknown in cases:
        for se in (("Known", None), ("Unknown", None), ("Mixed", None)):
            run = WriterRun(prog, entry, tag_type=t, form=form, size_len=k, unknown=unknown, stack_elem=se).run()
            inst = "%s type=%s form=%s unknown=%s stack=%s" % (entry.split("::")[-1], t, form, unknown, se[0])
            fl = getattr(run, "flushes", [])
            n_flush += len(fl)
            rep.instance("%s: %d hand-over events" % (inst, len(fl)))
            rep.analysed.append(entry)
            bad = sorted({w for (fn, ok, w) in fl if not ok})
            rep.oblige(not bad, "FLUSH-GUARD|%s|%s|%s|%s|no-known-open" % (entry.split("::")[-1], t, form, se[0]), "src/tag_writer.rs",
                       "%s: the buffer is handed to the destination while a known-size master may still be open (%s)" % (inst, bad))
            # liveness: nothing known-size open at entry and none opened by this call => delivered before returning Ok
            # (the property speaks about elements and master Ends; a Start only opens a master, and a Full master pushes a known-size entry
            #  that the summarised stack cannot forget again)
            if se[0] == "Unknown" and not (t == "Master" and form in ("Start", "Full")):
                for e in run.exits:
                    v = e.cells.get(run.frame.cell(0))
                    if isinstance(v, Enum) and 0 in v.variants and len(v.variants) == 1:
                        rep.oblige(e.ghost.get("flushed") == 1, "FLUSH-COMPLETE|%s|%s|%s|delivered" % (entry.split("::")[-1], t, form), "src/tag_writer.rs",
                                   "%s: returns Ok without handing the buffer over although no known-size master is open" % inst)
    if n_flush < 6:
        raise AnchorLost("R-FLUSH-GUARD: only %d hand-over events observed" % n_flush)
    rep.require_floor(20, "entry x stack classes")
    return rep
