"""abstract-interpretation rules over tag_iterator.rs (C04, C05, C12, C14, C17).

One analysis per public entry point (`next`, `try_recover`) from *any* object state that satisfies the
object invariant INV (pos <= filled <= buffer.len()) and the standing assumptions; the analysis
 * proves INV at every exit and at the recursive call it cuts (so the assumption is inductive),
 * records every panic obligation (compiler asserts, std preconditions, explicit panics),
 * records rule-specific obligations through hooks:
     STALE          every read of self.buffer lies below buffered_byte_length
     READ_NONEMPTY  the slice handed to R::read is non-empty (Ok(0) means end of stream, nothing else)
     EOF_GENUINE    UnexpectedEOF is constructed only after a read returned 0 in this call
     ALLOC_BOUNDED  every data-sized allocation is <= the configured limit (or the buffer capacity / 16)
     ADVANCE        an accepted header is 2..=16 bytes long
     INV            the object invariant at exits
"""
import hashlib
import json
import os
import pickle
import time

import absrun
from absint import State, get_at, set_at, Infeasible
from absval import Arr, Enum, Int, Ref, Struct, Top, ISIZE_MAX
from core import AnchorLost, RuleReport
from lin import LinForm
import mirlib
from mirlib import strip_generics
from rules.common import find_one

ITER = "tag_iterator::TagIterator"
OFF = 1 << 62
NEXT_KEY = "<tag_iterator::TagIterator<R, TSpec> as std::iter::Iterator>::next"

A_OFF = "A-OFF: stream offsets (buffer_offset + position, tag_start, data_start, sizes grown by try_recover) stay below 2^62"
A_64 = "A-64: usize is 64 bits"
A_SPEC = "A-SPEC: the specification is consistent as the trait docs require (see R-SPEC-CONSIST) and its methods do not panic"
A_COUNT = "A-COUNT: a counter incremented once per element of an in-memory sequence cannot overflow u64"


def field_index(prog):
    info = prog.adts.get(ITER)
    if info is None:
        raise AnchorLost("struct %s not found" % ITER)
    names = [f["name"] for f in info["variants"][0]["fields"]]
    need = ["has_determined_doc_path", "buffer", "buffer_offset", "buffered_byte_length", "internal_buffer_position", "tag_stack", "emission_queue",
            "allowed_errors", "max_allowed_tag_size", "emit_master_end_when_eof"]
    for n in need:
        if n not in names:
            raise AnchorLost("field %s of %s not found" % (n, ITER))
    return {n: i for i, n in enumerate(names)}


def inv_forms(ix, cell=("H", "arg", 1)):
    pos = (cell, (ix["internal_buffer_position"],))
    filled = (cell, (ix["buffered_byte_length"],))
    cap = (cell, (ix["buffer"], "len"))
    return [LinForm.var(pos) - LinForm.var(filled), LinForm.var(filled) - LinForm.var(cap)], (pos, filled, cap)


def constrain_self(eng, st, cell, ix, allowed_errors=None, max_size=None):
    """INV + A-OFF on the iterator object stored at `cell`"""
    v = st.cells[cell]
    bo = get_at(v, (ix["buffer_offset"],))
    if isinstance(bo, Enum):
        v = set_at(v, (ix["buffer_offset"], ("v", 1), 0), Int(0, OFF, 64, False))
    else:
        # the offset kept as a plain integer (0 until the buffer is first compacted)
        v = set_at(v, (ix["buffer_offset"],), Int(0, OFF, 64, False))
    ts = get_at(v, (ix["tag_stack"],))
    if isinstance(ts, Arr) and isinstance(ts.elem, Struct):
        el = ts.elem
        size = el.fields[1]
        if isinstance(size, Enum):
            size = Enum(size.path, {0: (Int(0, OFF, 64, False),), 1: ()})
        el = Struct(el.path, [el.fields[0], size, Int(0, OFF, 64, False), Int(0, OFF, 64, False)])
        v = set_at(v, (ix["tag_stack"],), Arr(ts.len, el, None, "vec"))
    if allowed_errors is not None:
        v = set_at(v, (ix["allowed_errors"],), Int.const(allowed_errors, 8, False))
    if max_size is not None:
        v = set_at(v, (ix["max_allowed_tag_size"],), max_size)
    st.cells[cell] = v
    forms, _ = inv_forms(ix, cell)
    for f in forms:
        st.add_le(f)


def _shape(v, eng, depth=0):
    """variant-name paths of an enum-valued result, e.g. {'Err/UnexpectedEOF', 'Ok'}"""
    out = set()
    if not isinstance(v, Enum) or depth > 3:
        return {"?"} if depth == 0 else set()
    info = eng.adt_info(v.path)
    core = {"std::option::Option": ["None", "Some"], "std::result::Result": ["Ok", "Err"]}
    for idx, pay in v.variants.items():
        if info is not None:
            nm = info["variants"][idx]["name"]
        else:
            nm = core.get(v.path, [str(i) for i in range(8)])[idx] if idx < 8 else str(idx)
        sub = set()
        for p in pay:
            sub |= _shape(p, eng, depth + 1)
        if sub:
            out |= {"%s/%s" % (nm, s) for s in sub}
        else:
            out.add(nm)
    return out


def _pa_offset(I, st, dloc):
    if dloc is not None:
        st.add_le(LinForm.var(dloc) - OFF)


class IterAnalysis:
    """one abstract run of an iterator entry point plus everything the rules want to know about it"""

    def __init__(self, prog, entry_key, allowed_errors=None, label=None):
        self.prog = prog
        self.ix = field_index(prog)
        self.entry_key = entry_key
        self.label = label or entry_key
        self.allowed_errors = allowed_errors
        self.extra = {}            # key -> dict(kind, desc, fn, where, ok, witness)
        self.err_kinds = set()     # corruption kinds constructed on reachable paths
        self.peek_ok_types = set()
        self.force = allowed_errors[1] if isinstance(allowed_errors, tuple) else None
        self.eng = None
        self.exits = None
        self.wall = 0.0

    # -- extra obligations ----------------------------------------------------------------
    def note(self, kind, fn, desc, where, ok, st=None, frame=None):
        k = (kind, fn, desc)
        e = self.extra.get(k)
        if e is None:
            e = {"kind": kind, "fn": fn, "desc": desc, "where": str(where), "ok": True, "reached": 0, "witness": None}
            self.extra[k] = e
        e["reached"] += 1
        if not ok and e["ok"]:
            e["ok"] = False
            if st is not None and frame is not None:
                e["witness"] = {"stack": frame.stack_paths(), "state": self.eng.describe(st, frame)}

    # -- hooks -------------------------------------------------------------------------------
    def self_loc(self, st):
        return ("H", "arg", 1)

    def on_index(self, call, arr_loc, index, index_lin, st, kind):
        cell = self.self_loc(st)
        if arr_loc is None or arr_loc[0] != cell or arr_loc[1][:1] != (self.ix["buffer"],):
            return
        if call.name.endswith("index_mut"):
            return    # the write side (read target) is covered by READ_NONEMPTY / bounds
        if call.frame.body.name == "ensure_capacity":
            return    # growth copies the whole allocation; the copied bytes stay beyond buffered_byte_length in the new buffer
        filled = LinForm.var((cell, (self.ix["buffered_byte_length"],)))
        fn = call.frame.body.path
        if kind == "elem":
            ok = index_lin is not None and st.entails_le(index_lin - filled + 1)
            self.note("STALE", fn, "element of self.buffer read below buffered_byte_length", call.span, ok, st, call.frame)
        else:
            sl, el = index_lin
            ok = el is not None and st.entails_le(el - filled)
            self.note("STALE", fn, "slice of self.buffer ends at or below buffered_byte_length", call.span, ok, st, call.frame)

    def on_alloc(self, call, size, size_lin, what):
        st = call.st
        cell = self.self_loc(st)
        fn = call.frame.body.path
        if not fn.startswith(ITER):
            return
        selfv = st.cells.get(cell)
        if selfv is None:
            return
        ok = False
        if isinstance(size, Int) and size.hi <= 16:
            ok = True
        if not ok and size_lin is not None:
            # sized by a slice returned from the specification (a declared path): static data, not stream data
            for k, v in st.cells.items():
                if k[0] == "H" and len(k) > 1 and k[1] == "ret" and isinstance(v, Arr) and isinstance(v.len, Int):
                    if st.entails_le(size_lin - LinForm.var((k, ("len",)))):
                        what = what + " (sized by specification data)"
                        ok = True
                        break
        mx = get_at(selfv, (self.ix["max_allowed_tag_size"],))
        cap = LinForm.var((cell, (self.ix["buffer"], "len")))
        if not ok and size_lin is not None:
            if st.entails_le(size_lin - cap):
                ok = True      # no larger than the buffer that is already there
            elif isinstance(mx, Enum) and set(mx.variants) == {1}:
                m = LinForm.var((cell, (self.ix["max_allowed_tag_size"], ("v", 1), 0)))
                mleaf = st.leaf((cell, (self.ix["max_allowed_tag_size"], ("v", 1), 0)))
                if mleaf is not None and mleaf.is_const():
                    m = LinForm.constant(mleaf.lo)
                # size <= max(limit, 16)
                if st.entails_le(size_lin - m) or (isinstance(size, Int) and size.hi <= 16):
                    ok = True
        if not ok and os.environ.get("VERIF_DEBUG_ALLOC"):
            print("ALLOC?", fn, what, "size", size, "lin", size_lin, "max", mx)
            for c in st.cons.le:
                print("     ", repr(c).replace("('H', 'arg', 1), ", "self.")[:260])
            for c in st.cons.eq:
                print("    =", repr(c).replace("('H', 'arg', 1), ", "self.")[:260])
        self.note("ALLOC_BOUNDED", fn, "%s sized by stream data is bounded by the limit / capacity" % what.split("::")[-1], call.span, ok, st, call.frame)

    def on_aggregate(self, st, frame, rv, span, place=None):
        if rv.get("agg") != "adt":
            return
        path = strip_generics(rv["path"])
        if path == "std::option::Option" and rv.get("variant") == "None" and frame.body.path == ITER + "::read_tag_checked" and place is not None \
                and place["local"] == 0 and not place["proj"]:
            # normal termination: only when the source is exhausted AND no unparsed byte is left in the buffer
            pos = LinForm.var((self.self_loc(st), (self.ix["internal_buffer_position"],)))
            filled = LinForm.var((self.self_loc(st), (self.ix["buffered_byte_length"],)))
            ok = (st.ghost.get("eof_seen") == 1 or any(x[0] == "eof" for x in st.tag)) and st.entails_le(filled - pos)
            self.note("CLEAN_EOF", frame.body.path, "end of iteration is reported only when the source is exhausted and every buffered byte was parsed", span, ok, st, frame)
        if path == "std::result::Result" and rv.get("variant") == "Err" and frame.body.path == ITER + "::try_recover" and frame.uid[0] == "root" \
                and place is not None and place["local"] == 0 and not place["proj"]:
            # try_recover gives up with UnexpectedEOF only when nothing is left to scan: source exhausted and every buffered byte passed
            v, _ = self.eng.eval_operand(st, frame, rv["ops"][0])
            sh = _shape(v, self.eng) if isinstance(v, Enum) else {"?"}
            if any("UnexpectedEOF" in x or x == "?" for x in sh):
                pos = LinForm.var((self.self_loc(st), (self.ix["internal_buffer_position"],)))
                filled = LinForm.var((self.self_loc(st), (self.ix["buffered_byte_length"],)))
                ok = st.entails_le(filled - pos)
                self.note("RECOVER_EXHAUSTED", frame.body.path, "recovery reports UnexpectedEOF only when every buffered byte has been scanned (position = filled)", span, ok, st, frame)
        if path == "errors::tag_iterator::TagIteratorError" and rv["variant"] == "UnexpectedEOF":
            ok = st.ghost.get("eof_seen") == 1 or any(x[0] == "eof" for x in st.tag)
            if frame.body.name == "buffer_master":
                # raised when the recursive read_next() queued nothing; read_next queues nothing only when read_tag_checked() returned None,
                # which its own analysis shows happens only after Ok(0) (the recursion is cut here, so this site inherits that fact)
                self.note("EOF_INHERITED", frame.body.path, "UnexpectedEOF of a buffered master is raised only when read_next() produced no item", span, True, st, frame)
                return
            # construction alone proves nothing (ok_or(..) builds its error eagerly): the decision is taken where the value is returned
            self.note("EOF_SITE", frame.body.path, "UnexpectedEOF construction site", span, True, st, frame)
        if path == "errors::tag_iterator::CorruptedFileError":
            self.err_kinds.add(rv["variant"])

    IOERR_FNS = ("private_read", "ensure_data_read", "peek_tag_id", "peek_valid_tag_header", "read_valid_tag_header", "read_tag_data", "read_tag", "read_tag_checked")

    def on_call(self, call):
        if self.force == "known_stack":
            nm = call.name or ""
            if nm.split("::")[-1] == "is_ended_by" or nm == "spec_util::is_ended_by":
                # the open-master stack as it is now (header validation may have replaced it by implied, unknown-size ancestors)
                v = call.st.cells.get(("H", "arg", 1))
                ts = get_at(v, (self.ix["tag_stack"],)) if v is not None else None
                sz = ts.elem.fields[1] if isinstance(ts, Arr) and isinstance(ts.elem, Struct) and len(ts.elem.fields) > 1 else None
                info = self.eng.adt_info(sz.path) if isinstance(sz, Enum) else None
                unknown_possible = True
                if info is not None:
                    unknown_possible = any(info["variants"][i]["name"] != "Known" for i in sz.variants)
                if not unknown_possible:
                    self.note("CLOSE_KNOWN", call.frame.body.path, "closing predicate consulted with known-size masters only", call.span, False, call.st, call.frame)
            if nm == "std::vec::Vec::push" and call.frame.body.path == ITER + "::read_next":
                self.note("CLOSE_KNOWN_REACHED", call.frame.body.path, "a new master is opened", call.span, True)
        # a failed read travels to the caller as the queued item
        if call.name == "std::collections::VecDeque::push_back" and call.frame.body.path == ITER + "::read_next" and any(x[0] == "rderr" for x in call.st.tag):
            v, _ = call.arg(1)
            sh = _shape(v, self.eng)
            self.note("IOERR", call.frame.body.path, "a failed read of the source is queued as ReadError", call.span, sh <= {"Err/ReadError"}, call.st, call.frame)

    def on_return(self, frame, st):
        if any(x[0] == "rderr" for x in st.tag) and frame.body.kind != "closure" and frame.body.path.startswith(ITER + "::") and frame.body.name in self.IOERR_FNS:
            v = st.cells.get(frame.cell(0))
            sh = _shape(v, self.eng) if isinstance(v, Enum) else {"?"}
            ok = sh <= {"Err/ReadError", "Some/Err/ReadError"}
            self.note("IOERR", frame.body.path, "a failed read of the source surfaces as ReadError", frame.body.span, ok, st, frame)
        if self.eng.opt.get("eof_partition") and frame.body.path.startswith(ITER + "::") and frame.body.kind != "closure" and frame.body.name != "buffer_master":
            v = st.cells.get(frame.cell(0))
            if isinstance(v, Enum):
                sh = _shape(v, self.eng)
                # a failing return (Err(..) / Some(Err(..))): a helper that merely builds the error value returns it plainly and is judged
                # where its caller returns it
                if any("UnexpectedEOF" in x and ("Err/" in x) for x in sh):
                    ok = st.ghost.get("eof_seen") == 1 or any(x[0] == "eof" for x in st.tag)
                    self.note("EOF_GENUINE", frame.body.path, "UnexpectedEOF is returned only after the source returned Ok(0)", frame.body.span, ok, st, frame)
        if frame.body.path == ITER + "::peek_valid_tag_header":
            v = st.cells.get(frame.cell(0))
            if isinstance(v, Enum) and 0 in v.variants:
                t = v.variants[0][0]
                ty = t.fields[1] if isinstance(t, Struct) and len(t.fields) > 1 else None
                if isinstance(ty, Enum):
                    self.peek_ok_types |= {"None" if i == 0 else "Some" for i in ty.variants}
                else:
                    self.peek_ok_types |= {"?"}
                hl = t.fields[3] if isinstance(t, Struct) and len(t.fields) > 3 else None
                ok = isinstance(hl, Int) and hl.lo >= 2 and hl.hi <= 16
                self.note("ADVANCE", frame.body.path, "an accepted header is 2..=16 bytes long", frame.body.span, ok, st, frame)

    def check_inv(self, st, frame, where, desc):
        forms, _ = inv_forms(self.ix)
        ok = all(st.entails_le(f) for f in forms)
        self.note("INV", frame.body.path, desc, where, ok, st, frame)
        return ok

    # -- recursion summary: read_next <-> buffer_master ------------------------------------------
    def summary_read_next(self, c, body):
        st = c.st
        self.check_inv(st, c.frame, c.span, "object invariant at the recursive call of read_next")
        cell = self.self_loc(st)
        old = st.cells[cell]
        st.kill_loc(cell, ())
        fresh = c.I.top_of(self.self_ty, st, ("arg", 1, "*"))
        # configuration fields are not written by read_next (checked by R-TOL-DEFAULT)
        for f in ("allowed_errors", "max_allowed_tag_size", "emit_master_end_when_eof", "tag_ids_to_buffer"):
            if f in self.ix:
                fresh = set_at(fresh, (self.ix[f],), get_at(old, (self.ix[f],)))
        st.cells[cell] = fresh
        try:
            constrain_self(c.I, st, cell, self.ix)
        except Infeasible:
            return
        c.ret(c.I.top_of(c.ret_ty(), st, ("ret", c.frame.uid, c.bb)))

    # -- run ------------------------------------------------------------------------------------------
    def run(self):
        prog = self.prog
        body = prog.bodies.get(self.entry_key) or find_one(prog, self.entry_key)
        no_inline = ["spec_util::validate_tag_path", "tools::arr_to_u64", "tools::arr_to_i64", "tools::arr_to_f64"]
        for p in no_inline:
            if p not in prog.bodies:
                raise AnchorLost("function %s not found" % p)
        eng = absrun.make_engine(
            prog,
            no_inline=no_inline,
            merge_on_return={ITER + "::read_valid_tag_header": None, ITER + "::peek_valid_tag_header": ["try_recover"]},
            post_assume={ITER + "::current_offset": _pa_offset},
            summaries={ITER + "::read_next": self.summary_read_next},
            eof_partition=(body.name != "try_recover"),
            rderr_partition=(body.name == "next"),
        )
        self.eng = eng
        eng.on("index", self.on_index)
        eng.on("alloc", self.on_alloc)
        eng.on("aggregate", self.on_aggregate)
        eng.on("return", self.on_return)
        eng.on("call", self.on_call)
        self.self_ty = body.locals[1]["ty"]["to"] if body.locals[1]["ty"].get("k") == "ref" else None
        ix = self.ix

        force = None
        if isinstance(self.allowed_errors, tuple):
            force = self.allowed_errors[1]
            eng.models = dict(eng.models)
            if force == "unknown_id":
                eng.models["ebml_iterable_specification::EbmlSpecification::get_tag_data_type"] = lambda c: c.ret(Enum("std::option::Option", {0: ()}))
            elif force == "matcher":
                eng.models["spec_util::validate_tag_path"] = lambda c: c.ret(Int.const(0, 1, False))
            elif force == "overrun":
                eng.models[ITER + "::is_invalid_tag_size"] = lambda c: c.ret(Int.const(1, 1, False))

        def setup(eng_, st, frame):
            r = st.cells[frame.cell(1)]
            ae = self.allowed_errors if isinstance(self.allowed_errors, int) else (self.allowed_errors[0] if isinstance(self.allowed_errors, tuple) else None)
            if force == "matcher":
                st.cells[r.cell] = set_at(st.cells[r.cell], (ix["has_determined_doc_path"],), Int.const(1, 1, False))
            mx = None
            if self.allowed_errors == "limit":
                mx = Enum("std::option::Option", {1: (Int(0, OFF, 64, False),)})
            constrain_self(eng_, st, r.cell, ix, ae, mx)
            if force == "known_stack":
                v = st.cells[r.cell]
                ts = get_at(v, (ix["tag_stack"],))
                if not (isinstance(ts, Arr) and isinstance(ts.elem, Struct) and isinstance(ts.elem.fields[1], Enum)):
                    raise AnchorLost("tag_stack entries no longer carry an EBMLSize")
                info = eng_.adt_info(ts.elem.fields[1].path)
                known = [i for i, vv in enumerate(info["variants"]) if vv["name"] == "Known"]
                el = ts.elem
                size = Enum(el.fields[1].path, {i: el.fields[1].variants[i] for i in known})
                v = set_at(v, (ix["tag_stack"],), Arr(ts.len, Struct(el.path, [el.fields[0], size] + list(el.fields[2:])), None, "vec"))
                st.cells[r.cell] = v
            st.ghost["eof_seen"] = 0
        import absint as _absint
        _forms, (pv, fv, cv) = inv_forms(ix)
        _absint.INVARIANT_VARS[:] = [pv, fv, cv]
        t0 = time.time()
        try:
            exits, frame = absrun.analyze(eng, body, None, setup)
        finally:
            _absint.INVARIANT_VARS[:] = []
        self.exits = exits
        self.frame = frame
        self.exit_shapes = set()
        for e in exits:
            self.check_inv(e, frame, body.span, "object invariant at exit of %s" % body.name)
            v = e.cells.get(frame.cell(0))
            self.exit_shapes |= _shape(v, eng)
        self.wall = time.time() - t0
        return self

    # -- serialisable result ------------------------------------------------------------------------
    def result(self):
        obs = []
        for k, o in self.eng.obligations.items():
            obs.append({"fn": o.fn, "bb": o.key[1], "kind": o.kind, "desc": o.desc, "where": o.where, "ok": o.ok, "reached": o.reached,
                        "witness": o.witness})
        return {
            "entry": self.entry_key, "label": self.label, "allowed_errors": self.allowed_errors,
            "obligations": obs, "extra": list(self.extra.values()), "err_kinds": sorted(self.err_kinds), "peek_ok_types": sorted(self.peek_ok_types),
            "assumptions": sorted(self.eng.assumptions), "notes": self.eng.notes[:20], "unmodelled": dict(self.eng.unmodelled),
            "steps": self.eng.steps, "wall": self.wall, "exits": len(self.exits or []), "exit_shapes": sorted(self.exit_shapes),
        }


# ----------------------------------------------------------------------------------------------------
# cached / parallel execution
# ----------------------------------------------------------------------------------------------------
def _facts_digest(prog):
    h = hashlib.sha256()
    for fn in sorted(os.listdir(prog.fact_dir)):
        if fn.endswith(".json"):
            with open(os.path.join(prog.fact_dir, fn), "rb") as f:
                h.update(f.read())
    for fn in ("absint.py", "absval.py", "engine.py", "interp.py", "lin.py", "models.py", "models2.py", "mirlib.py", "rules/iterator.py", "canon.py", "anchors.json"):
        with open(os.path.join(os.path.dirname(os.path.dirname(os.path.abspath(__file__))), fn), "rb") as f:
            h.update(f.read())
    return h.hexdigest()[:24]


def _job(args):
    fact_dir, entry, allowed = args
    prog = mirlib.Program(fact_dir)
    a = IterAnalysis(prog, entry, allowed).run()
    return a.result()


def run_analyses(ctx, jobs):
    """jobs: list of (entry_key, allowed_errors).  Results are cached on disk keyed by the digest of the fact files and the analyser's
    own sources, so the six properties that share these analyses pay for them once per tree."""
    prog = ctx.prog
    digest = ctx.cache.get("facts_digest")
    if digest is None:
        digest = _facts_digest(prog)
        ctx.cache["facts_digest"] = digest
    cdir = os.path.join(ctx.root, ".cache")
    os.makedirs(cdir, exist_ok=True)
    out = {}
    todo = []
    for (entry, allowed) in jobs:
        name = hashlib.sha256(("%s|%s|%s" % (digest, entry, allowed)).encode()).hexdigest()[:24]
        path = os.path.join(cdir, name + ".pkl")
        key = (entry, allowed)
        if key in ctx.cache:
            out[key] = ctx.cache[key]
        elif os.path.exists(path) and os.environ.get("VERIF_NO_CACHE") != "1":
            with open(path, "rb") as f:
                out[key] = pickle.load(f)
            out[key]["cached"] = True
        else:
            todo.append((key, path))
    if todo:
        import multiprocessing as mp
        args = [(prog.fact_dir, k[0], k[1]) for k, _ in todo]
        if len(todo) == 1:
            results = [_job(args[0])]
        else:
            with mp.Pool(min(len(todo), max(1, (os.cpu_count() or 2) - 1))) as pool:
                results = pool.map(_job, args)
        for (key, path), r in zip(todo, results):
            r["cached"] = False
            out[key] = r
            tmp = path + ".tmp%d" % os.getpid()
            with open(tmp, "wb") as f:
                pickle.dump(r, f)
            os.replace(tmp, path)
    for k, v in out.items():
        ctx.cache[k] = v
    # keep the cache small
    try:
        files = sorted((os.path.getmtime(os.path.join(cdir, f)), f) for f in os.listdir(cdir) if f.endswith(".pkl"))
        for _, f in files[:-60]:
            os.remove(os.path.join(cdir, f))
    except OSError:
        pass
    return out


# ----------------------------------------------------------------------------------------------------
# structural side conditions
# ----------------------------------------------------------------------------------------------------
SPEC_CTORS = {"get_master_tag": "Master", "get_unsigned_int_tag": "UnsignedInt", "get_signed_int_tag": "Integer", "get_utf8_tag": "Utf8",
              "get_binary_tag": "Binary", "get_float_tag": "Float"}


def spec_panic_sites(prog, rep=None):
    """'Bad specification' panic sites of the iterator and the evidence that makes them unreachable for consistent specs.
    -> set of (function key, kind) that may be discharged under A-SPEC"""
    allowed = set()
    tdt = prog.adts.get("TagDataType") or prog.adts.get("ebml_iterable_specification::TagDataType")
    if tdt is None:
        raise AnchorLost("enum TagDataType not found in facts")
    vnames = [v["name"] for v in tdt["variants"]]
    fn_bodies = sorted((b for b in prog.bodies.values() if b.promoted_index is None and b.kind != "closure" and b.crate == "ebml_iterable"
                        and b.path.startswith(ITER + "::")), key=lambda b: b.key)
    for body in fn_bodies:
        dom = body.dominators()
        for bb, t, c in body.calls():
            if c is None:
                continue
            nm = strip_generics(c["path"]).split("::")[-1]
            if nm not in SPEC_CTORS or not strip_generics(c["path"]).endswith("EbmlSpecification::" + nm):
                continue
            want = SPEC_CTORS[nm]
            # consumer of the Option: unwrap_or_else(closure) or unwrap()
            nxt = t["target"]
            cons = body.blocks[nxt]["term"] if nxt is not None else None
            # skip trivial moves
            site = None
            if cons is not None and cons["k"] == "call":
                cn = mirlib.callee_name(cons) or ""
                if cn.endswith("Option::unwrap_or_else") or cn.endswith("Option::unwrap") or cn.endswith("Option::expect"):
                    site = (nxt, cn)
            if site is None:
                # `match get_x_tag(..) { Some(t) => t, None => panic!(..) }`: a switch on the result whose None arm diverges
                pbb = _none_arm_panic(body, t)
                if pbb is not None:
                    site = (pbb, "match-None-panics")
            if site is None:
                continue
            # evidence: the block is dominated by an edge selecting TagDataType::<want> for the id's type, or by as_master()==Some(..),
            # or the id comes from get_path_by_id (ids on a path are masters: guaranteed by the derive, C18)
            ev = None
            for d in sorted(dom.get(bb, ())):
                tt = body.blocks[d]["term"]
                if tt["k"] == "switch":
                    for v, tg in tt["targets"]:
                        if 0 <= v < len(vnames) and vnames[v] == want and body.edge_dominates((d, tg), bb):
                            src = _switch_scrutinee_field(body, d)
                            if src == "TagDataType":
                                ev = "dominated by the TagDataType::%s arm" % want
                if tt["k"] == "call" and (mirlib.callee_name(tt) or "").endswith("EbmlTag::as_master"):
                    ev = ev or "dominated by as_master() on the same tag"
            if ev is None and want == "Master" and any((strip_generics(c2["path"]) if c2 else "").endswith("EbmlSpecification::get_path_by_id") for _, _, c2 in body.calls()):
                ev = "id taken from get_path_by_id (path ids are masters; C18 R-DERIVE-VALIDATES)"
            if ev is None and body.name == "roll_up_children":
                # the id is a parameter: every caller passes the id of a tag whose as_master() returned Some(Start)
                good = True
                for cb, cbb, ct in prog.callers_of(ITER + "::roll_up_children"):
                    root = prog.function_root(cb)
                    if root.name == "roll_up_children":
                        continue       # recursive call: dominated by as_master() (checked above for that frame)
                    if root.name == "buffer_master":
                        for rb, rbb, rt in prog.callers_of(ITER + "::buffer_master"):
                            rd = rb.dominators()
                            if not any(rb.blocks[d]["term"]["k"] == "call" and (mirlib.callee_name(rb.blocks[d]["term"]) or "").endswith("EbmlTag::as_master")
                                       for d in rd.get(rbb, ())):
                                good = False
                    else:
                        good = False
                if good:
                    ev = "all callers pass the id of a tag for which as_master() returned Some"
            if ev is None and body.kind != "closure":
                # inside a closure of the function (map over the path)
                pass
            key = "SPEC-CONSIST|%s|%s|%s" % (body.name, nm, site[1].split("::")[-1])
            if rep is not None:
                rep.instance("%s: %s -> %s (%s)" % (body.name, nm, site[1].split("::")[-1], ev))
                rep.oblige(ev is not None, key, body.span, "%s: the panic guarding %s is not dominated by evidence that the id has type %s" % (body.name, nm, want))
            if ev is not None:
                if site[1].endswith("unwrap_or_else"):
                    # the closure argument
                    a1 = cons["args"][1]
                    if a1.get("k") in ("copy", "move"):
                        for b2, i, stmt in body.statements():
                            if stmt["k"] == "assign" and stmt["place"]["local"] == a1["place"]["local"] and stmt["rv"].get("agg") == "closure":
                                allowed.add((strip_generics(stmt["rv"]["def"]), "PANIC"))
                elif site[1] == "match-None-panics":
                    allowed.add((body.key, "PANIC@%d" % site[0]))
                else:
                    allowed.add((body.key, "PRECOND@%d" % site[0]))
    # the `PathPart::Global(_) => unreachable!()` arm of the closure that seeds the implied ancestors: reachable only if the path
    # contains a placeholder, which the dominating `path.iter().all(|p| matches!(p, PathPart::Id(_)))` test excludes
    seeders = [b for b in fn_bodies if b.calls_to("std::iter::Iterator::map") and b.calls_to("std::iter::Iterator::all")
               and any((strip_generics(c2["path"]) if c2 else "").endswith("EbmlSpecification::get_path_by_id") for _, _, c2 in b.calls())]
    for pv in seeders:
      maps = pv.calls_to("std::iter::Iterator::map")
      alls = pv.calls_to("std::iter::Iterator::all")
      for mb, mt, mc in maps:
          a1 = mt["args"][1]
          clo = None
          for b2, i, stmt in pv.statements():
              if stmt["k"] == "assign" and a1.get("k") in ("copy", "move") and stmt["place"]["local"] == a1["place"]["local"] and stmt["rv"].get("agg") == "closure":
                  clo = strip_generics(stmt["rv"]["def"])
          guarded = False
          for ab, at, ac in alls:
              nxt = at["target"]
              tt = pv.blocks[nxt]["term"] if nxt is not None else None
              if tt is not None and tt["k"] == "switch":
                  for v, tg in tt["targets"]:
                      pass
                  true_tgt = tt["otherwise"] if all(v == 0 for v, _ in tt["targets"]) else None
                  if true_tgt is not None and pv.edge_dominates((nxt, true_tgt), mb):
                      guarded = True
          if clo is not None:
              if rep is not None:
                  rep.instance("%s: unreachable!() arm of %s guarded by all(Id): %s" % (pv.name, clo.split("::")[-1], guarded))
                  rep.oblige(guarded, "SPEC-CONSIST|seed-ancestors|unreachable-arm", pv.span,
                             "the closure that seeds implied ancestors is not dominated by the all(PathPart::Id) test")
              if guarded:
                  allowed.add((clo, "PANIC"))
    # closures nested in closures (peek_valid_tag_header's map over the path)
    for b in prog.bodies.values():
        if b.kind != "closure" or not (b.parent or "").startswith(ITER):
            continue
        for bb, t, c in b.calls():
            if c is None:
                continue
            nm = strip_generics(c["path"]).split("::")[-1]
            if nm in SPEC_CTORS and strip_generics(c["path"]).endswith("EbmlSpecification::" + nm):
                nxt = t["target"]
                cons = b.blocks[nxt]["term"] if nxt is not None else None
                if cons is not None and cons["k"] == "call" and (mirlib.callee_name(cons) or "").endswith("Option::unwrap_or_else"):
                    a1 = cons["args"][1]
                    for b2, i, stmt in b.statements():
                        if stmt["k"] == "assign" and a1.get("k") in ("copy", "move") and stmt["place"]["local"] == a1["place"]["local"] and stmt["rv"].get("agg") == "closure":
                            allowed.add((strip_generics(stmt["rv"]["def"]), "PANIC"))
                            if rep is not None:
                                rep.instance("%s: %s in a path-mapping closure (ids from get_path_by_id)" % (b.key, nm))
    # the loop of try_recover that grows the declared size of every open master: blocks inside a loop driven by an iterator over tag_stack
    # (the addition there is what R-RECOVER-STRETCH checks; its overflow is A-OFF's, whatever the operands are called)
    try:
        from rules.writer import local_sources as _ls
        tr = prog.bodies.get(ITER + "::try_recover")
        if tr is not None:
            for cb, t, c in tr.calls():
                if c is None or not strip_generics(c["path"]).endswith("::next") or not t["args"] or t["args"][0].get("k") not in ("copy", "move"):
                    continue
                if "field:tag_stack" not in _ls(tr, t["args"][0]["place"]["local"]):
                    continue
                fwd = tr.reachable_from(cb)
                for b2 in fwd:
                    if b2 != cb and cb in tr.reachable_from(b2):
                        allowed.add((ITER + "::try_recover", "STRETCH@%d" % b2))
    except Exception:
        pass
    # an assertion in try_recover that restates the monotonicity of the cursor (`debug_assert!(self.current_offset() >= original_position)`):
    # the panic block is the failing side of a switch on a comparison both of whose operands come from current_offset().  It is the fact the
    # reviewed argument for the distance subtraction establishes (REVIEWED, premises RECOVER-MONO-PREMISE), stated as an assertion.
    try:
        from rules.writer import local_sources as _ls2
        tr = prog.bodies.get(ITER + "::try_recover")
        if tr is not None:
            preds = tr.preds()
            CO = "call:" + ITER + "::current_offset"
            for b in sorted(tr.live_blocks()):
                t = tr.blocks[b]["term"]
                if t["k"] != "switch" or t["discr"].get("k") not in ("copy", "move") or t["discr"]["place"]["proj"]:
                    continue
                dl = t["discr"]["place"]["local"]
                cmpst = [st for _, _, st in tr.statements() if st["k"] == "assign" and st["place"]["local"] == dl and not st["place"]["proj"]
                         and st["rv"].get("k") == "binop" and st["rv"].get("op") in ("Ge", "Gt", "Le", "Lt")]
                if len(cmpst) != 1:
                    continue
                ops = [cmpst[0]["rv"]["a"], cmpst[0]["rv"]["b"]]
                if not all(o.get("k") in ("copy", "move") and CO in _ls2(tr, o["place"]["local"]) for o in ops):
                    continue
                # blocks dominated by one side of this switch that end in a panic call and cannot return
                for v, tg in list(t["targets"]) + [(None, t["otherwise"])]:
                    if tg is None:
                        continue
                    reach = tr.reachable_from(tg)
                    if any(tr.blocks[x]["term"]["k"] == "return" for x in reach) or len(reach) > 8:
                        continue
                    for x in reach:
                        allowed.add((ITER + "::try_recover", "MONO@%d" % x))
    except Exception:
        pass
    return allowed


def _none_arm_panic(body, call_term):
    """block of the diverging call reached from the None arm of a switch on this call's Option result (within a few blocks), else None"""
    dest = call_term["dest"]["local"] if not call_term["dest"]["proj"] else None
    nxt = call_term["target"]
    if dest is None or nxt is None:
        return None
    # find the switch on discriminant(dest) within the next few blocks
    cur, hops = nxt, 0
    none_t = None
    while cur is not None and hops < 4:
        blk = body.blocks[cur]
        t = blk["term"]
        if t["k"] == "switch":
            disc_of = None
            d = t["discr"]
            if d.get("k") in ("copy", "move") and not d["place"]["proj"]:
                for st in blk["stmts"]:
                    if st["k"] == "assign" and st["place"]["local"] == d["place"]["local"] and st["rv"]["k"] == "discr":
                        disc_of = st["rv"]["place"]["local"]
            if disc_of is None:
                return None
            if disc_of != dest and "local:%d" % dest not in _moved_chain(body, disc_of):
                return None
            none_t = next((tg for v, tg in t["targets"] if v == 0), None)
            break
        cur = t.get("target") if t["k"] in ("goto", "drop", "call", "assert") else None
        hops += 1
    if none_t is None:
        return None
    seen, frontier = set(), [none_t]
    for _ in range(8):
        nf = []
        for b in frontier:
            if b in seen:
                continue
            seen.add(b)
            t = body.blocks[b]["term"]
            if t["k"] == "call" and t.get("target") is None:
                return b
            if t["k"] in ("goto", "drop", "call", "assert") and t.get("target") is not None:
                nf.append(t["target"])
        frontier = nf
    return None


def _moved_chain(body, local, depth=4):
    out = set()
    cur = local
    for _ in range(depth):
        d = None
        for b, i, st in body.statements():
            if st["k"] == "assign" and not st["place"]["proj"] and st["place"]["local"] == cur:
                d = st
        if d is None or d["rv"]["k"] != "use" or d["rv"]["op"].get("k") not in ("copy", "move") or d["rv"]["op"]["place"]["proj"]:
            break
        cur = d["rv"]["op"]["place"]["local"]
        out.add("local:%d" % cur)
    return out


def _switch_scrutinee_field(body, bb):
    """'TagDataType' if the switch in bb tests the discriminant of a TagDataType value"""
    t = body.blocks[bb]["term"]
    d = t["discr"]
    if d.get("k") not in ("copy", "move"):
        return None
    loc = d["place"]["local"]
    for st in reversed(body.blocks[bb]["stmts"]):
        if st["k"] == "assign" and st["place"]["local"] == loc and st["rv"]["k"] == "discr":
            ty = st["rv"]["place"].get("ty") or {}
            p = strip_generics(ty.get("path", ""))
            if p.endswith("TagDataType"):
                return "TagDataType"
            return p
    return None


# ----------------------------------------------------------------------------------------------------
# rules
# ----------------------------------------------------------------------------------------------------
ENTRY_JOBS = [(NEXT_KEY, None), (ITER + "::try_recover", None)]
def known_stack_job(hierarchy_bit):
    """read_next from a state in which every open master has a known size (R-CLOSE-UNKNOWN-ONLY); hierarchy problems tolerated, so that header
    validation does not replace the stack by implied (unknown-size) ancestors"""
    return (ITER + "::read_next", (hierarchy_bit, "known_stack"))

REVIEWED = {
    (ITER + "::try_recover", "ASSERT", "Overflow(Sub)("):
        "the stream offset buffer_offset.unwrap_or(0) + internal_buffer_position never decreases: try_recover only increments the position, "
        "and ensure_data_read (the only other writer reachable from it) replaces (offset, position) by (Some(offset + position), 0) "
        "(premises checked structurally by RECOVER-MONO-PREMISE)",
    # (function, kind, desc-prefix) -> argument.  Premises are checked in _reviewed_premises (only when the argument is actually used).
    (ITER + "::buffer_master::{closure#", "PRECOND", "unwrap on a value that may be Err"):
        "the closure unwraps the queue items *before* the stopping index only; the search examines the items in increasing order and stops at "
        "the first one that is an Err (or the matching End), and the roll-up is reached only when the stopping item is_ok(): so every item "
        "before it is Ok.  A per-element fact about a summarised queue is outside the abstract domain; the premises (search stops at Err, "
        "roll-up guarded by is_ok) are checked by REVIEWED-PREMISE",
}


def _classify(res, allowed_spec, rep, prefix, fn_filter=None, kinds=None):
    """turn an analysis result into obligations of rule report `rep`"""
    groups = {}
    for o in res["obligations"]:
        if kinds is not None and o["kind"] not in kinds:
            continue
        if fn_filter is not None and not fn_filter(o["fn"]):
            continue
        groups.setdefault((o["fn"], o["kind"], o["desc"]), []).append(o)
    for (fn, kind, desc), obs in sorted(groups.items()):
        obs.sort(key=lambda o: o["bb"])
        for i, o in enumerate(obs):
            key = "%s|%s|%s|%s|#%d" % (prefix, fn, kind, desc, i)
            if o["ok"]:
                rep.oblige(True, key, o["where"], "")
                continue
            # assumptions
            if kind == "PANIC" and (fn, "PANIC") in allowed_spec:
                rep.obligations += 1
                rep.discharged += 1
                if A_SPEC not in rep.assumed:
                    rep.assumed.append(A_SPEC)
                continue
            if kind == "PANIC" and (fn, "PANIC@%d" % o["bb"]) in allowed_spec:
                rep.obligations += 1
                rep.discharged += 1
                if A_SPEC not in rep.assumed:
                    rep.assumed.append(A_SPEC)
                continue
            if kind == "PRECOND" and (fn, "PRECOND@%d" % o["bb"]) in allowed_spec:
                rep.obligations += 1
                rep.discharged += 1
                if A_SPEC not in rep.assumed:
                    rep.assumed.append(A_SPEC)
                continue
            if fn == "spec_util::validate_tag_path" and desc.startswith("Overflow(Add)(") and desc.rstrip(")").split(",")[-1].strip() in ("1", "2"):
                # a counter stepped by 1 or 2 once per element of an in-memory sequence
                rep.obligations += 1
                rep.discharged += 1
                if A_COUNT not in rep.assumed:
                    rep.assumed.append(A_COUNT)
                continue
            if fn == ITER + "::try_recover" and kind == "ASSERT" and (desc.startswith("Overflow(Add)(_") or
                                                                      (desc.startswith("Overflow(Add)(") and (fn, "STRETCH@%d" % o["bb"]) in allowed_spec)):
                # a declared size grown by the skipped distance (what is added to what is checked by R-RECOVER-STRETCH): A-OFF covers it,
                # whether the sum is written with the checked operator or through std's wrapping `&usize + usize`
                rep.obligations += 1
                rep.discharged += 1
                if A_OFF not in rep.assumed:
                    rep.assumed.append(A_OFF)
                continue
            if fn == ITER + "::current_offset" and desc.startswith("Overflow(Add)"):
                rep.obligations += 1
                rep.discharged += 1
                if A_OFF not in rep.assumed:
                    rep.assumed.append(A_OFF)
                continue
            rv = None
            if fn == ITER + "::try_recover" and kind == "PANIC" and (fn, "MONO@%d" % o["bb"]) in allowed_spec:
                rv = REVIEWED[(ITER + "::try_recover", "ASSERT", "Overflow(Sub)(")] + " [here stated as an assertion on current_offset()]"
                rep.reviewed_used = getattr(rep, "reviewed_used", set()) | {ITER + "::try_recover"}
            for (rfn, rkind, rdesc), arg in REVIEWED.items():
                if (fn == rfn or (rfn.endswith("{closure#") and fn.startswith(rfn))) and kind == rkind and desc.startswith(rdesc):
                    rv = arg
                    rep.reviewed_used = getattr(rep, "reviewed_used", set()) | {rfn}
            if rv is not None:
                rep.obligations += 1
                rep.discharged += 1
                rep.notes.append("reviewed obligation (not proved by absint): %s %s in %s — %s" % (kind, desc, fn, rv))
                continue
            rep.oblige(False, key, o["where"], "%s %s in %s is not discharged (entry %s)" % (kind, desc, fn, res["label"].split("::")[-1]),
                       {"witness": o.get("witness"), "reached": o["reached"]})


def _extra(res, rep, kind, prefix, floor):
    n = 0
    groups = {}
    for e in res["extra"]:
        if e["kind"] != kind:
            continue
        groups.setdefault((e["fn"], e["desc"]), []).append(e)
    for (fn, desc), es in sorted(groups.items()):
        for i, e in enumerate(es):
            n += 1
            rep.instance("%s: %s (%s)" % (fn.split("::")[-1], desc, e["where"]))
            rep.oblige(e["ok"], "%s|%s|%s|#%d" % (prefix, fn, desc, i), e["where"], "%s: %s — not established (entry %s)" % (fn, desc, res["label"].split("::")[-1]),
                       {"witness": e.get("witness")})
    return n


def _leaves_loop_via_flag(body, start, loop, limit=12):
    """from block `start`, following straight-line control flow and deciding switches on locals that were assigned a constant on the way,
    is the loop left before any back edge is taken?"""
    consts = {}
    cur = start
    seen = set()
    for _ in range(limit):
        if cur not in loop:
            return True
        if cur in seen:
            return False
        seen.add(cur)
        blk = body.blocks[cur]
        for st in blk["stmts"]:
            if st["k"] == "assign" and not st["place"]["proj"]:
                rv = st["rv"]
                if rv["k"] == "use" and rv["op"].get("k") == "const" and isinstance(rv["op"].get("v"), (int, bool)):
                    consts[st["place"]["local"]] = int(rv["op"]["v"])
                elif rv["k"] == "use" and rv["op"].get("k") in ("copy", "move") and not rv["op"]["place"]["proj"] and rv["op"]["place"]["local"] in consts:
                    consts[st["place"]["local"]] = consts[rv["op"]["place"]["local"]]
                else:
                    consts.pop(st["place"]["local"], None)
        t = blk["term"]
        if t["k"] == "goto":
            cur = t["target"]
        elif t["k"] == "switch" and t["discr"].get("k") in ("copy", "move") and not t["discr"]["place"]["proj"] and t["discr"]["place"]["local"] in consts:
            val = consts[t["discr"]["place"]["local"]]
            nxt = next((tg for v, tg in t["targets"] if v == val), None)
            cur = nxt if nxt is not None else t["otherwise"]
        elif t["k"] in ("drop",) and t.get("target") is not None:
            cur = t["target"]
        else:
            return False
    return False


def _reviewed_premises(ctx, rep):
    """premises of the reviewed argument for buffer_master's `c.unwrap()` over the buffered children"""
    from rules.writer import local_sources
    prog = ctx.prog
    bm = find_one(prog, "TagIterator::buffer_master")
    # (A) the roll-up (the map over the children that unwraps them) is reached only when the stopping item is_ok()
    maps = bm.calls_to("std::iter::Iterator::map")
    okA = False
    # the test may be written is_ok() (roll-up on its true edge) or is_err() (roll-up on its false edge, e.g. after an early return), or as a
    # match on the item's discriminant (roll-up on the Ok edge)
    tests = [(x, True) for x in bm.calls_to("std::result::Result::is_ok")] + [(x, False) for x in bm.calls_to("std::result::Result::is_err")]
    for mb, mt, mc in maps:
        for (ib, it_, ic), want_true in tests:
            nxt = it_["target"]
            tt = bm.blocks[nxt]["term"] if nxt is not None else None
            if tt is not None and tt["k"] == "switch":
                true_t = tt["otherwise"] if all(v == 0 for v, _ in tt["targets"]) else next((tg for v, tg in tt["targets"] if v == 1), None)
                false_t = next((tg for v, tg in tt["targets"] if v == 0), None)
                edge_t = true_t if want_true else false_t
                if edge_t is not None and bm.edge_dominates((nxt, edge_t), mb):
                    okA = True
    if not okA:
        # `match item { Ok(_) => roll up, Err(_) => .. }` / `matches!(item, Ok(_))`: the Ok edge of a switch on the discriminant of a Result
        # taken out of the children dominates the roll-up
        for mb, mt, mc in maps:
            for x in sorted(bm.live_blocks()):
                tt = bm.blocks[x]["term"]
                if tt["k"] != "switch":
                    continue
                dis = [st for st in bm.blocks[x]["stmts"] if st["k"] == "assign" and st["rv"]["k"] == "discr"]
                if not dis:
                    continue
                base = dis[-1]["rv"]["place"]["local"]
                src = local_sources(bm, base)
                if not any(("::get" in z or "Option::unwrap" in z or "::index" in z) for z in src):
                    continue
                ok_t = next((tg for v, tg in tt["targets"] if v == 0), None)
                if ok_t is None and all(v == 1 for v, _ in tt["targets"]):
                    ok_t = tt["otherwise"]
                if ok_t is not None and bm.edge_dominates((x, ok_t), mb):
                    okA = True
    if not okA:
        # the same through a boolean (`matches!(item, Ok(_))` stored or tested later): the roll-up is on the true edge of a switch on a local that
        # is set to true only on the Ok edge of such a discriminant switch
        def ok_edges():
            out = []
            for x in sorted(bm.live_blocks()):
                tt = bm.blocks[x]["term"]
                if tt["k"] != "switch":
                    continue
                dis = [st for st in bm.blocks[x]["stmts"] if st["k"] == "assign" and st["rv"]["k"] == "discr"]
                if not dis:
                    continue
                src = local_sources(bm, dis[-1]["rv"]["place"]["local"])
                if not any(("::get" in z or "Option::unwrap" in z or "::index" in z) for z in src):
                    continue
                ok_t = next((tg for v, tg in tt["targets"] if v == 0), None)
                if ok_t is None and all(v == 1 for v, _ in tt["targets"]):
                    ok_t = tt["otherwise"]
                if ok_t is not None:
                    out.append((x, ok_t))
            return out
        oks = ok_edges()
        for mb, mt, mc in maps:
            for x in sorted(bm.live_blocks()):
                tt = bm.blocks[x]["term"]
                if tt["k"] != "switch" or tt["discr"].get("k") not in ("copy", "move") or tt["discr"]["place"]["proj"]:
                    continue
                flag = tt["discr"]["place"]["local"]
                true_t = tt["otherwise"] if all(v == 0 for v, _ in tt["targets"]) else next((tg for v, tg in tt["targets"] if v == 1), None)
                if true_t is None or not bm.edge_dominates((x, true_t), mb):
                    continue
                sets = [(b2, st2) for b2, i2, st2 in bm.statements() if st2["k"] == "assign" and not st2["place"]["proj"] and st2["place"]["local"] == flag]
                if not sets:
                    continue
                good = True
                for b2, st2 in sets:
                    rv = st2["rv"]
                    if rv["k"] == "use" and rv["op"].get("k") == "const" and rv["op"].get("v") in (0, False):
                        continue
                    if rv["k"] == "use" and rv["op"].get("k") == "const" and rv["op"].get("v") in (1, True) and any(bm.edge_dominates(e, b2) for e in oks):
                        continue
                    good = False
                if good:
                    okA = True
    rep.instance("buffer_master: roll-up guarded by is_ok() on the stopping item: %s" % okA)
    rep.oblige(okA, "REVIEWED-PREMISE|buffer_master|rollup-guard", bm.span, "the children are unwrapped on a path where the stopping item was not tested with is_ok()")
    # (B) the search stops at the first Err
    okB = None
    # B1: an explicit loop: get(i) on the queue, switch on the item's Result discriminant, the Err arm leaves the loop
    for gb, gt, gc in bm.calls_to("std::collections::VecDeque::get"):
        if "field:emission_queue" not in local_sources(bm, gt["args"][0]["place"]["local"]):
            continue
        loop = {x for x in bm.reachable_from(gb) if gb in bm.reachable_from(x)}
        if not loop:
            continue
        for x in sorted(loop):
            tt = bm.blocks[x]["term"]
            if tt["k"] != "switch":
                continue
            # a switch whose scrutinee is a discriminant read (of the item) and whose target for variant 1 (Err) is outside the loop
            dis = [st for st in bm.blocks[x]["stmts"] if st["k"] == "assign" and st["rv"]["k"] == "discr"]
            if not dis:
                continue
            for v, tg in tt["targets"]:
                if v == 1 and tg not in loop:
                    okB = "explicit loop: the Err arm of the item match leaves the search loop"
                elif v == 1 and _leaves_loop_via_flag(bm, tg, loop):
                    okB = "explicit loop: the Err arm of the item match sets the flag that leaves the search loop"
    # B2: Iterator::position(pred) over the queue: the predicate answers true for every Err (abstract evaluation)
    if okB is None:
        import absrun
        from absval import Closure, Enum, Ref, Top, Int
        for pb, pt, pc in bm.calls_to("std::iter::Iterator::position"):
            a1 = pt["args"][1]
            clo_def = None
            for b2, i2, st2 in bm.statements():
                if st2["k"] == "assign" and a1.get("k") in ("copy", "move") and st2["place"]["local"] == a1["place"]["local"] and st2["rv"].get("agg") == "closure":
                    clo_def = strip_generics(st2["rv"]["def"])
            cb = prog.bodies.get(clo_def) if clo_def else None
            if cb is None:
                continue
            eng = absrun.make_engine(prog)

            def setup(e, st, fr, cb=cb):
                # the item: &Result<..> known to be Err
                ty = cb.locals[2]["ty"]
                r = e.top_of(ty, st, ("arg", 2))
                tgt = st.cells.get(r.cell) if isinstance(r, Ref) else None
                if isinstance(tgt, Enum) and 1 in tgt.variants:
                    st.cells[r.cell] = Enum(tgt.path, {1: tgt.variants[1]})
                st.cells[fr.cell(2)] = r
            try:
                exits, fr = absrun.analyze(eng, cb, None, setup)
                vals = [e.cells.get(fr.cell(0)) for e in exits]
                if vals and all(isinstance(v, Int) and v.is_const() and v.lo == 1 for v in vals):
                    okB = "position(): the predicate is true for every Err item (abstract evaluation of %s)" % cb.key.split("::")[-1]
            except Exception:
                pass
    rep.instance("buffer_master: search stops at the first Err: %s" % (okB or "NOT established"))
    rep.oblige(okB is not None, "REVIEWED-PREMISE|buffer_master|stops-at-err", bm.span,
               "the search for the end of the buffered master is not shown to stop at the first Err item (needed for unwrapping the items before it)")


def _standalone(ctx, rep, allowed_spec):
    """constructors, setters and the callees that the entry analyses treat as opaque"""
    prog = ctx.prog
    names = ["TagIterator::new", "TagIterator::with_capacity", "TagIterator::allow_errors", "TagIterator::set_max_allowable_tag_size",
             "TagIterator::emit_master_end_when_eof", "TagIterator::last_emitted_tag_offset", "TagIterator::into_inner", "TagIterator::get_ref",
             "TagIterator::get_mut", "spec_util::validate_tag_path", "TagIterator::roll_up_children"]
    for nm in names:
        body = find_one(prog, nm)
        eng = absrun.make_engine(prog)
        absrun.analyze(eng, body)
        rep.analysed.append(body.key)
        res = {"obligations": [{"fn": o.fn, "bb": o.key[1], "kind": o.kind, "desc": o.desc, "where": o.where, "ok": o.ok, "reached": o.reached,
                                "witness": o.witness} for o in eng.obligations.values()], "label": nm}
        _classify(res, allowed_spec, rep, "PANIC")
        rep.instance("standalone %s" % nm)


def r_spec_consist(ctx):
    rep = RuleReport("R-SPEC-CONSIST", "every 'Bad specification' panic (and the bare unwrap on get_master_tag) is dominated by evidence that the id "
                     "has the matching data type, so it is unreachable for a consistent specification")
    spec_panic_sites(ctx.prog, rep)
    rep.require_floor(4, "specification panic sites")
    return rep


def r_iter_panic(ctx):
    rep = RuleReport("R-PANIC(iterator)", "no panic edge is reachable from next(), try_recover(), the constructors and setters, from any object state "
                     "satisfying the invariant pos <= filled <= capacity, for any input and any Read implementation; the invariant is inductive")
    ctx.need_file("ebml_iterable", "src/tag_iterator.rs")
    allowed = spec_panic_sites(ctx.prog)
    results = run_analyses(ctx, ENTRY_JOBS)
    for key in ENTRY_JOBS:
        res = results[key]
        rep.instance("entry %s: %d obligations, %d steps, %.0fs%s" % (res["label"].split("::")[-1], len(res["obligations"]), res["steps"], res["wall"],
                                                                     " (cached)" if res.get("cached") else ""))
        rep.analysed.append(res["entry"])
        _classify(res, allowed, rep, "PANIC")
        _extra(res, rep, "INV", "INV", 1)
        for a in res["assumptions"]:
            if a not in rep.assumed:
                rep.assumed.append(a)
        rep.notes.extend(res["notes"][:5])
        rep.samples.append({"entry": res["label"], "exit_shapes": res["exit_shapes"][:12]})
    _standalone(ctx, rep, allowed)
    if getattr(rep, "reviewed_used", None) and any("buffer_master" in x for x in rep.reviewed_used):
        _reviewed_premises(ctx, rep)
    recover_mono_premises(ctx, rep)
    for a in (A_OFF, A_64):
        if a not in rep.assumed:
            rep.assumed.append(a)
    if rep.obligations < 60:
        raise AnchorLost("R-PANIC(iterator): only %d obligations, expected more" % rep.obligations)
    return rep


def r_stale(ctx):
    rep = RuleReport("R-STALE", "every read of the internal buffer made while parsing (header bytes, size vint, payload, partial_data) lies below "
                     "buffered_byte_length: nothing derived from stale bytes can reach a result")
    results = run_analyses(ctx, ENTRY_JOBS)
    n = 0
    for key in ENTRY_JOBS:
        n += _extra(results[key], rep, "STALE", "STALE", 1)
    if n < 2:
        raise AnchorLost("R-STALE: only %d buffer reads seen, expected at least 2" % n)
    return rep


def r_read_nonempty(ctx):
    rep = RuleReport("R-READ-NONEMPTY", "the slice handed to R::read is never empty, so Ok(0) can only mean end of stream")
    results = run_analyses(ctx, ENTRY_JOBS)
    n = 0
    for key in ENTRY_JOBS:
        res = results[key]
        for o in res["obligations"]:
            if o["kind"] == "READ_NONEMPTY":
                n += 1
                rep.instance("%s (%s)" % (o["fn"], o["where"]))
                rep.oblige(o["ok"], "READ-NONEMPTY|%s|%s" % (o["fn"], res["label"].split("::")[-1]), o["where"],
                           "the buffer handed to read() in %s may be empty" % o["fn"], {"witness": o.get("witness")})
    if n < 1:
        raise AnchorLost("R-READ-NONEMPTY: no call of Read::read seen")
    rep.assumed.append("A-READ: R::read(buf) returns Ok(n) only with n <= buf.len()")
    return rep


def r_eof_genuine(ctx):
    rep = RuleReport("R-EOF-GENUINE", "UnexpectedEOF is constructed only on paths on which the source has returned Ok(0) during this call: "
                     "chunking alone (a short read, a small buffer) can never produce it")
    results = run_analyses(ctx, ENTRY_JOBS)
    n = 0
    sites = 0
    for key in ENTRY_JOBS:
        n += _extra(results[key], rep, "EOF_GENUINE", "EOF-GENUINE", 1)
        sites += sum(1 for e in results[key]["extra"] if e["kind"] in ("EOF_SITE", "EOF_INHERITED"))
    rep.instance("UnexpectedEOF construction sites seen: %d" % sites)
    nc = _extra(results[(NEXT_KEY, None)], rep, "CLEAN_EOF", "CLEAN-EOF", 1)
    if nc < 1:
        raise AnchorLost("R-EOF-GENUINE: the normal-termination exit of read_tag_checked was not observed")
    # try_recover's own end-of-file error: constructed only on the false edge of ensure_data_read(1)'s result
    tr = find_one(ctx.prog, "TagIterator::try_recover")
    ok = False
    eof_blocks = [b for b, i, st in tr.statements() if st["k"] == "assign" and st["rv"].get("agg") == "adt" and st["rv"].get("variant") == "UnexpectedEOF"]
    # a private helper that does nothing but build the error value counts as a construction site where it is called
    builders = {b.path for b in ctx.prog.bodies.values() if b.promoted_index is None and b.kind != "closure" and b.path.startswith(ITER + "::")
                and len(b.blocks) <= 6 and any(st["k"] == "assign" and st["rv"].get("agg") == "adt" and st["rv"].get("variant") == "UnexpectedEOF"
                                               for _, _, st in b.statements())
                and not any(c is not None and strip_generics(c["path"]).startswith("std::io::Read") for _, _, c in b.calls())}
    eof_blocks += [cb for cb, t, c in tr.calls() if c is not None and strip_generics(c["path"]) in builders]
    ed = tr.calls_to(ITER + "::ensure_data_read")
    if eof_blocks and ed:
        for b in sorted(tr.live_blocks()):
            t = tr.blocks[b]["term"]
            if t["k"] == "switch" and t["discr"].get("k") in ("copy", "move"):
                from rules.writer import local_sources
                src = local_sources(tr, t["discr"]["place"]["local"])
                if "call:" + ITER + "::ensure_data_read" in src or "call:std::ops::Try::branch" in src:
                    for v, tg in t["targets"]:
                        if v == 0 and all(tr.edge_dominates((b, tg), eb) for eb in eof_blocks):
                            ok = True
    rep.instance("try_recover: UnexpectedEOF guarded by ensure_data_read(1) == false: %s" % ok)
    rep.oblige(ok, "EOF-GENUINE|try_recover|guard", tr.span, "try_recover raises UnexpectedEOF on a path not selected by ensure_data_read(..) returning false")
    if n < 2 or sites < 1:
        raise AnchorLost("R-EOF-GENUINE: only %d returning functions / %d construction sites of UnexpectedEOF seen" % (n, sites))
    return rep


def r_ioerr(ctx):
    rep = RuleReport("R-IOERR", "on every path on which R::read returned an error during next(), each function on the way up returns ReadError "
                     "(wrapped in Some for read_tag_checked) and read_next queues exactly that error: a source failure is never turned into end of "
                     "input or into another error")
    results = run_analyses(ctx, ENTRY_JOBS)
    n = _extra(results[(NEXT_KEY, None)], rep, "IOERR", "IOERR", 1)
    fns = {e["fn"].split("::")[-1] for e in results[(NEXT_KEY, None)]["extra"] if e["kind"] == "IOERR"}
    # the path is observed from the function that calls read() itself (whatever it is called) up to read_next
    readers = {b.name for b in ctx.prog.bodies.values() if b.promoted_index is None and b.kind != "closure" and b.path.startswith(ITER + "::")
               and b.calls_to("std::io::Read::read")}
    need = readers | {"read_next"}
    if not readers or not need <= fns:
        raise AnchorLost("R-IOERR: the failing-read path was not observed in %s" % sorted(need - fns))
    # the error value itself is carried: ReadError { source } is built from the io::Error by map_err in private_read
    pr = next(b for b in sorted(ctx.prog.bodies.values(), key=lambda b: b.key) if b.promoted_index is None and b.kind != "closure"
              and b.path.startswith(ITER + "::") and b.calls_to("std::io::Read::read"))
    clos = ctx.prog.closures_of(pr.path)
    ok = False
    from rules.writer import local_sources
    for cb in clos + [pr]:
        for b, i, st in cb.statements():
            if st["k"] == "assign" and st["rv"].get("agg") == "adt" and st["rv"].get("variant") == "ReadError":
                op = st["rv"]["ops"][0]
                if op.get("k") not in ("copy", "move"):
                    continue
                if cb is not pr:
                    # built by a closure (map_err): from its argument
                    ok = ok or 1 <= op["place"]["local"] <= cb.arg_count + 1 or any(x.startswith("field:") is False for x in ())
                    src = local_sources(cb, op["place"]["local"])
                    ok = ok or not any(x.startswith("call:") for x in src)
                else:
                    # built in place: from the Err payload of the read() result
                    ok = ok or ("call:std::io::Read::read" in local_sources(pr, op["place"]["local"]))
    rep.instance("%s: ReadError { source } built from the closure argument: %s" % (pr.name, ok))
    rep.oblige(ok, "IOERR|reader|source-carried", pr.span, "the ReadError built in %s does not carry the io::Error it was given" % pr.name)
    return rep


def r_alloc(ctx):
    rep = RuleReport("R-LIMIT", "every allocation whose size comes from stream data (buffer growth, to_vec, collect) is bounded by the configured "
                     "limit when one is set, or by the existing capacity / the 16-byte look-ahead; size arithmetic cannot overflow")
    results = run_analyses(ctx, [(NEXT_KEY, "limit")])
    res = results[(NEXT_KEY, "limit")]
    # the property is stated for "no buffered masters": allocations made while rolling up a buffered master (buffer_master and the helpers
    # only it calls) are outside it
    from rules.common import only_called_under
    res = dict(res)
    kept, skipped = [], set()
    for e in res["extra"]:
        if e["kind"] == "ALLOC_BOUNDED":
            fb = ctx.prog.bodies.get(e["fn"])
            if fb is not None and only_called_under(ctx.prog, fb, ("buffer_master",)):
                skipped.add(e["fn"].split("::")[-1])
                continue
        kept.append(e)
    res["extra"] = kept
    if skipped:
        rep.notes.append("allocations in %s not counted: reachable only with buffered masters, which the property excludes" % sorted(skipped))
    n = _extra(res, rep, "ALLOC_BOUNDED", "ALLOC", 1)
    if n < 2:
        raise AnchorLost("R-LIMIT: only %d data-sized allocations seen" % n)
    allowed = spec_panic_sites(ctx.prog)
    _classify(res, allowed, rep, "SIZE-ARITH", fn_filter=lambda f: f.split("::")[-1] in ("peek_valid_tag_header", "is_invalid_tag_size", "read_tag_data",
              "ensure_capacity", "ensure_data_read", "new", "{closure#1}") or "is_invalid_tag_size" in f, kinds=("ASSERT",))
    rep.assumed.extend([A_OFF, A_64])
    return rep


def r_advance(ctx):
    rep = RuleReport("L-ADVANCE", "an accepted header is 2..=16 bytes long (each parsed tag consumes input) and every iteration of try_recover's "
                     "scan that does not return advances the cursor by one byte")
    results = run_analyses(ctx, ENTRY_JOBS)
    n = 0
    for key in ENTRY_JOBS:
        n += _extra(results[key], rep, "ADVANCE", "ADVANCE", 1)
    if n < 1:
        raise AnchorLost("L-ADVANCE: peek_valid_tag_header's Ok exit was not observed")
    tr = find_one(ctx.prog, "TagIterator::try_recover")
    loops = [b for b in tr.live_blocks() if any(s <= b and b in tr.reachable_from(s) for s in tr.successors(b))]
    incs = []
    for b, i, st in tr.statements():
        if st["k"] == "assign" and st["rv"]["k"] == "binop" and st["rv"]["op"] == "AddWithOverflow":
            a, c = st["rv"]["a"], st["rv"]["b"]
            if a.get("k") in ("copy", "move") and any(e.get("name") == "internal_buffer_position" for e in a["place"]["proj"]) and str(c.get("v")) == "1":
                incs.append(b)
    rep.instance("try_recover cursor increments: %d" % len(incs))
    ok = False
    pk = tr.calls_to(ITER + "::peek_valid_tag_header")
    if incs and pk:
        dom = tr.dominators()
        ok = all(any(i in dom.get(pb, ()) for i in incs) for pb, _, _ in pk)
    rep.oblige(ok, "ADVANCE|try_recover|increment-dominates-probe", tr.span, "try_recover probes for a header without first advancing the cursor by one byte")
    return rep


def _field_writes(body, field):
    out = []
    for b, i, st in body.statements():
        if st["k"] == "assign" and any(e["k"] == "field" and e.get("name") == field for e in st["place"]["proj"]):
            out.append((b, i, st))
    return out


def _reachable_fns(prog, root):
    seen = {root.key}
    work = [root]
    while work:
        b = work.pop()
        bodies = [b] + prog.closures_of(b.path)
        for bd in bodies:
            for bb, t, c in bd.calls():
                if c is None:
                    continue
                for nm in (strip_generics(c["path"]), strip_generics(c.get("resolved", {}).get("path", ""))):
                    tb = prog.bodies.get(nm)
                    if tb is not None and tb.key not in seen and tb.crate == "ebml_iterable":
                        seen.add(tb.key)
                        work.append(tb)
    return [prog.bodies[k] for k in seen]


def recover_mono_premises(ctx, rep):
    prog = ctx.prog
    tr = find_one(prog, "TagIterator::try_recover")
    ok = True
    msgs = []
    writers = {}
    for b in _reachable_fns(prog, tr):
        for fld in ("internal_buffer_position", "buffer_offset"):
            ws = _field_writes(b, fld)
            if ws:
                writers.setdefault(b.name, []).append((fld, len(ws)))
    rep.instance("writers of (buffer_offset, position) reachable from try_recover: %s" % sorted(writers.items()))
    from rules.common import only_called_under
    allowed = {"try_recover", "ensure_data_read"}
    extra = {w for w in set(writers) - allowed if not only_called_under(prog, find_one(prog, "TagIterator::" + w), ("ensure_data_read",))}
    if extra:
        ok = False
        msgs.append("functions %s also write the cursor" % sorted(extra))
    # try_recover: only `position += 1`
    for b, i, st in _field_writes(tr, "internal_buffer_position"):
        rv = st["rv"]
        good = False
        if rv["k"] == "use" and rv["op"].get("k") in ("copy", "move") and rv["op"]["place"]["proj"]:
            src = rv["op"]["place"]["local"]
            for b2, i2, st2 in tr.statements():
                if st2["k"] == "assign" and st2["place"]["local"] == src and st2["rv"]["k"] == "binop" and st2["rv"]["op"] == "AddWithOverflow":
                    a, c = st2["rv"]["a"], st2["rv"]["b"]
                    if any(e.get("name") == "internal_buffer_position" for e in a.get("place", {}).get("proj", [])) and c.get("k") == "const" and int(c.get("v", -1)) >= 0:
                        good = True
        if not good:
            ok = False
            msgs.append("try_recover writes the position other than by adding a non-negative constant")
    if _field_writes(tr, "buffer_offset"):
        ok = False
        msgs.append("try_recover writes buffer_offset")
    # ensure_data_read keeps buffer_offset + position unchanged: decided by abstract interpretation (see rules/flow.py, R-OFFSET-BOOK)
    from rules import flow
    for variant in flow.bo_variants(prog):
        res = flow._book_run(prog, variant)
        cur = [c for c in res["checks"] if c["what"].startswith("the cursor's stream offset")]
        if not cur:
            ok = False
            msgs.append("no exit of ensure_data_read was analysed")
        for c in cur:
            if not c["ok"]:
                ok = False
                msgs.append("ensure_data_read does not provably preserve buffer_offset + position (%s)" % c["where"])
    rep.oblige(ok, "RECOVER-MONO-PREMISE", tr.span, "premises of the monotonicity argument fail: %s" % "; ".join(msgs))
    return ok


def r_recover(ctx):
    rep = RuleReport("R-RECOVER", "try_recover never panics, never moves backwards (the distance subtraction is proved not to underflow), "
                     "and fails only with ReadError or UnexpectedEOF")
    key = (ITER + "::try_recover", None)
    res = run_analyses(ctx, [key])[key]
    allowed = spec_panic_sites(ctx.prog)
    _classify(res, allowed, rep, "PANIC")
    rep.instance("try_recover: %d obligations" % len(res["obligations"]))
    mono = [o for o in res["obligations"] if o["fn"] == ITER + "::try_recover" and o["desc"].startswith("Overflow(Sub)")]
    rep.instance("distance subtraction sites: %d" % len(mono))
    rep.oblige(bool(mono), "RECOVER-MONO|site", "src/tag_iterator.rs", "try_recover no longer computes the skipped distance by subtraction (anchor)")
    if not all(o["ok"] for o in mono):
        recover_mono_premises(ctx, rep)
    shapes = set(res["exit_shapes"])
    errs = {s for s in shapes if s.startswith("Err")}
    bad = {s for s in errs if not (s.startswith("Err/ReadError") or s.startswith("Err/UnexpectedEOF"))}
    rep.instance("error shapes at exit: %s" % sorted(errs))
    rep.oblige(not bad and bool(errs), "RECOVER-ERRSET", "src/tag_iterator.rs", "try_recover may fail with %s (only ReadError / UnexpectedEOF are allowed)" % sorted(bad))
    _extra(res, rep, "INV", "INV", 1)
    if _extra(res, rep, "RECOVER_EXHAUSTED", "RECOVER-EXHAUSTED", 1) < 1:
        raise AnchorLost("R-RECOVER: try_recover's end-of-input exit was not observed")
    rep.assumed.extend([A_OFF, A_64, "A-READ: R::read(buf) returns Ok(n) only with n <= buf.len()"])
    return rep


# ----------------------------------------------------------------------------------------------------
# C13
# ----------------------------------------------------------------------------------------------------
TOL_KINDS = {"InvalidTagIds": "InvalidTagId", "HierarchyProblems": "HierarchyError", "OversizedTags": "OversizedChildElement"}


def tolerance_bits(ctx, rep):
    """AllowableErrors variant -> bit, by abstract evaluation of allow_errors on a one-element slice"""
    prog = ctx.prog
    ix = field_index(prog)
    info = prog.adts.get("tag_iterator_util::AllowableErrors")
    if info is None:
        raise AnchorLost("enum AllowableErrors not found")
    body = find_one(prog, "TagIterator::allow_errors")
    bits = {}
    for vi, v in enumerate(info["variants"]):
        eng = absrun.make_engine(prog)

        def setup(eng_, st, frame, vi=vi):
            r = st.cells[frame.cell(2)]
            el = Enum("tag_iterator_util::AllowableErrors", {vi: ()})
            st.cells[r.cell] = Arr(Int.const(1, 64, False), el, {0: el}, "slice")
        exits, frame = absrun.analyze(eng, body, None, setup)
        vals = set()
        for e in exits:
            x = get_at(e.cells[("H", "arg", 1)], (ix["allowed_errors"],))
            vals.add((x.lo, x.hi) if isinstance(x, Int) else None)
        rep.instance("allow_errors([%s]) -> allowed_errors = %s" % (v["name"], sorted(map(str, vals))))
        ok = len(vals) == 1 and None not in vals and list(vals)[0][0] == list(vals)[0][1] and list(vals)[0][0] in (1, 2, 4, 8, 16, 32, 64, 128)
        rep.oblige(ok, "TOL-TABLE|%s|single-bit" % v["name"], body.span, "allow_errors([%s]) sets allowed_errors to %s, not a single bit" % (v["name"], vals))
        if ok:
            bits[v["name"]] = list(vals)[0][0]
    rep.oblige(len(set(bits.values())) == len(bits) == 3, "TOL-TABLE|distinct", body.span, "tolerance bits are not three distinct bits: %s" % bits)
    # empty slice -> 0 (strict)
    eng = absrun.make_engine(prog)

    def setup0(eng_, st, frame):
        r = st.cells[frame.cell(2)]
        st.cells[r.cell] = Arr(Int.const(0, 64, False), Enum("tag_iterator_util::AllowableErrors", {0: ()}), None, "slice")
    exits, frame = absrun.analyze(eng, body, None, setup0)
    z = {repr(get_at(e.cells[("H", "arg", 1)], (ix["allowed_errors"],))) for e in exits}
    rep.oblige(z == {"0u8"}, "TOL-TABLE|empty-is-strict", body.span, "allow_errors(&[]) leaves %s" % z)
    return bits


def r_tol(ctx):
    rep = RuleReport("R-TOL", "for each of the 8 tolerance masks, abstract interpretation of header validation: a corruption kind is constructible "
                     "exactly when its own bit is clear (InvalidTagSize / InvalidTagData for every mask); with the id bit clear no raw (untyped) header is accepted")
    prog = ctx.prog
    bits = tolerance_bits(ctx, rep)
    if len(bits) != 3:
        return rep
    entry = ITER + "::peek_valid_tag_header"
    jobs = [(entry, k) for k in range(8)]
    # masks are expressed with the *actual* bits
    allb = sorted(bits.values())
    masks = []
    for k in range(8):
        m = 0
        for i, b in enumerate(allb):
            if k & (1 << i):
                m |= b
        masks.append(m)
    jobs = [(entry, m) for m in masks]
    results = run_analyses(ctx, jobs)
    for m in masks:
        res = results[(entry, m)]
        kinds = set(res["err_kinds"])
        for vname, kind in TOL_KINDS.items():
            tolerated = bool(m & bits[vname])
            rep.instance("mask %d: %s %s" % (m, kind, "tolerated" if tolerated else "enforced"))
            rep.oblige((kind in kinds) == (not tolerated), "TOL|mask=%d|%s" % (m, kind), "src/tag_iterator.rs",
                       "with allowed_errors=%d, %s is %s (expected %s)" % (m, kind, "constructible" if kind in kinds else "not constructible",
                                                                        "not constructible" if tolerated else "constructible"))
        for kind in ("InvalidTagSize", "InvalidTagData"):
            rep.oblige(kind in kinds, "TOL|mask=%d|%s" % (m, kind), "src/tag_iterator.rs", "with allowed_errors=%d, %s is no longer constructible" % (m, kind))
        if not (m & bits["InvalidTagIds"]):
            rep.oblige(set(res["peek_ok_types"]) == {"Some"}, "STRICT-NORAW|mask=%d" % m, "src/tag_iterator.rs",
                       "with unknown ids not tolerated, a header with type %s can be accepted" % res["peek_ok_types"])
        else:
            rep.oblige("None" in res["peek_ok_types"], "STRICT-NORAW|mask=%d|tolerant" % m, "src/tag_iterator.rs", "tolerating unknown ids does not let raw tags through")
    # a tolerated failing check must not shadow the later checks
    order = ["InvalidTagIds", "HierarchyProblems", "OversizedTags"]
    forces = {"InvalidTagIds": "unknown_id", "HierarchyProblems": "matcher", "OversizedTags": "overrun"}
    jobs2 = []
    for xi, x in enumerate(order):
        for m in masks:
            if m & bits[x]:
                jobs2.append((entry, (m, forces[x])))
    res2 = run_analyses(ctx, jobs2)
    for xi, x in enumerate(order):
        for m in masks:
            if not (m & bits[x]):
                continue
            r = res2[(entry, (m, forces[x]))]
            kinds = set(r["err_kinds"])
            later = [TOL_KINDS[y] for y in order[xi + 1:] if not (m & bits[y])]
            if x == "InvalidTagIds":
                later = [k for k in later if k != "HierarchyError"]       # the hierarchy check does not apply to untyped (raw) elements
            for kind in later + ["InvalidTagSize"]:
                rep.instance("mask %d, %s failing but tolerated: %s still enforced" % (m, TOL_KINDS[x], kind))
                rep.oblige(kind in kinds, "TOL-SHADOW|mask=%d|%s|%s" % (m, x, kind), "src/tag_iterator.rs",
                           "with allowed_errors=%d and a tolerated %s, the %s check is no longer reachable" % (m, TOL_KINDS[x], kind))
            rep.oblige(TOL_KINDS[x] not in kinds, "TOL-SHADOW|mask=%d|%s|silenced" % (m, x), "src/tag_iterator.rs",
                       "with allowed_errors=%d the tolerated kind %s is still constructible" % (m, TOL_KINDS[x]))
    rep.require_floor(40, "mask x kind cases")
    return rep


def r_tol_strict(ctx):
    """the strict-mode row of R-TOL only (what C06 needs): with no error tolerated every corruption kind is still raised and no untyped header is accepted"""
    import re
    rep = r_tol(ctx)
    rep.rule = "R-TOL-STRICT"
    rep.clause = "strict mode (allowed_errors = 0): unknown ids, hierarchy errors, overruns, oversized tags and invalid data are all still raised and no untyped header is accepted (row mask=0 of R-TOL)"
    keep = []
    dropped = 0
    for f in rep.findings:
        m = re.search(r"\|mask=(\d+)", f.key)
        if m and int(m.group(1)) != 0:
            dropped += 1
            continue
        keep.append(f)
    rep.findings = keep
    rep.obligations -= dropped
    rep.instances = [i for i in rep.instances if not re.search(r"mask[= ]([1-7])\b", str(i))] or rep.instances
    return rep


def r_tol_default(ctx):
    rep = RuleReport("R-TOL-DEFAULT", "allowed_errors and max_allowed_tag_size are written only by the constructor (0 and Some(limit > 0)) and their setters; "
                     "emit_master_end_when_eof only by the constructor and its setter")
    prog = ctx.prog
    allowed = {"allowed_errors": {"with_capacity", "allow_errors"}, "max_allowed_tag_size": {"with_capacity", "set_max_allowable_tag_size"},
               "emit_master_end_when_eof": {"with_capacity", "emit_master_end_when_eof"}}
    n = 0
    for b in prog.bodies.values():
        if b.promoted_index is not None or b.crate != "ebml_iterable":
            continue
        root = prog.function_root(b)
        rn = root.name if root else b.name
        for fld, ok_fns in allowed.items():
            for bb, i, st in _field_writes(b, fld):
                n += 1
                rep.instance("%s writes %s" % (b.key, fld))
                rep.oblige(rn in ok_fns, "TOL-DEFAULT|%s|%s" % (fld, rn), b.span, "%s is written in %s" % (fld, b.key))
    # constructor values
    wc = find_one(prog, "TagIterator::with_capacity")
    for bb, i, st in wc.statements():
        if st["k"] == "assign" and st["rv"].get("agg") == "adt" and strip_generics(st["rv"]["path"]) == ITER:
            n += 1
            flds = st["rv"]["fields"]
            ops = st["rv"]["ops"]
            ae = ops[flds.index("allowed_errors")]
            rep.oblige(ae.get("k") == "const" and str(ae.get("v")) == "0", "TOL-DEFAULT|ctor|allowed_errors", wc.span, "the constructor does not start strict (allowed_errors = %s)" % ae.get("v"))
            em = ops[flds.index("emit_master_end_when_eof")]
            rep.oblige(em.get("k") == "const" and str(em.get("v")) == "1", "TOL-DEFAULT|ctor|emit_eof", wc.span, "the constructor does not enable EOF closing by default")
            mx = ops[flds.index("max_allowed_tag_size")]
            src = mx.get("place", {}).get("local")
            good = False
            for b2, i2, st2 in wc.statements():
                if st2["k"] == "assign" and st2["place"]["local"] == src and st2["rv"].get("agg") == "adt" and st2["rv"].get("variant") == "Some":
                    good = True
            rep.oblige(good, "TOL-DEFAULT|ctor|limit", wc.span, "the constructor does not install a default size limit (Some(..))")
    if n < 4:
        raise AnchorLost("R-TOL-DEFAULT: only %d writes of the settings found" % n)
    return rep
