"""C01 / C07 (and the writer half of C16): size fields, the unknown-size marker, codec pairing, payload widths.

R-SIZE-TABLE      the reader's reserved ("unknown size") set U(len) and the writer's size encoders are computed by abstract
                  interpretation per value class; a known size is never emitted as a member of U(width)
R-UNKNOWN-MARKER  the constant the writer emits for an unknown-size master decodes (RFC 8794 vint, decoded by the checker)
                  to a value that the reader classifies as unknown
R-CODEC-PAIR      per TagDataType, reader and writer use the constructor / accessor / payload codec the trait contract assigns
R-PAYLOAD-WIDTH   per value class and size-field form, the numeric writers declare exactly the number of payload bytes they append,
                  and choose the minimal 1/2/4/8-byte width
"""
import absrun
from absint import State, get_at, set_at
from absval import Arr, BOT, Enum, Int, Ref, Struct, Top, ISIZE_MAX
from core import AnchorLost, RuleReport
from lin import LinForm
import mirlib
from mirlib import strip_generics
from rules.common import find_one, ret_value
from rules.writer_abs import WriterRun, WRITER, writer_bodies_list

U64 = (1 << 64) - 1


def _int_args_setup(vals):
    def setup(eng, st, frame):
        for i, v in vals.items():
            lo, hi = v
            st.cells[frame.cell(i)] = Int(lo, hi, 64, False) if lo != hi else Int.const(lo, 64, False)
    return setup


def ebml_size_classes(prog, length, lo, hi):
    """abstractly: which EBMLSize variants can EBMLSize::new(size in [lo,hi], length) return"""
    body = find_one(prog, "EBMLSize::new")
    eng = absrun.make_engine(prog)
    exits, frame = absrun.analyze(eng, body, None, _int_args_setup({1: (lo, hi), 2: (length, length)}))
    out = set()
    info = prog.adts.get("tag_iterator_util::EBMLSize")
    for e in exits:
        v = ret_value(e, frame)
        if isinstance(v, Enum):
            for i in v.variants:
                out.add(info["variants"][i]["name"] if info else str(i))
        else:
            out.add("?")
    return out


def _vec_lens(exits, frame):
    out = set()
    for e in exits:
        v = ret_value(e, frame)
        if not isinstance(v, Enum):
            out.add("?")
            continue
        for i, pay in v.variants.items():
            if i == 1:
                out.add("Err")
            else:
                a = pay[0]
                n = a.len.lo if isinstance(a, Arr) and isinstance(a.len, Int) and a.len.is_const() else None
                out.add("Ok(len=%s)" % ("?" if n is None else n))
    return out


def r_size_table(ctx):
    rep = RuleReport("R-SIZE-TABLE", "the reader's reserved set is exactly {2^(7L)-1} per width L; the writer's size encoders emit width w only for "
                     "sizes outside the reserved set of w (2^(7w)-1 moves to w+1, or is refused for a fixed width); every known size goes through them")
    prog = ctx.prog
    ctx.need_file("ebml_iterable", "src/tag_iterator_util.rs")
    # (a) reader
    for L in range(1, 9):
        r = (1 << (7 * L)) - 1
        for lo, hi, want, label in ((r, r, {"Unknown"}, "reserved"), (0, r - 1, {"Known"}, "below"), (r + 1, (1 << 62), {"Known"}, "above")):
            got = ebml_size_classes(prog, L, lo, hi)
            rep.instance("EBMLSize::new(len=%d, size %s)" % (L, label))
            rep.oblige(got == want, "SIZE-TABLE|reader|L=%d|%s" % (L, label), "src/tag_iterator_util.rs",
                       "EBMLSize::new(size in [%d,%d], %d) may be %s, specified %s" % (lo, hi, L, sorted(got), sorted(want)))
    # (b) default encoder
    body = find_one(prog, "tag_writer::size_as_vint")
    for w in range(1, 9):
        lo = 0 if w == 1 else (1 << (7 * (w - 1)))
        hi = (1 << (7 * w)) - 2
        cls = [(lo, hi, "class"), (lo, lo, "lower"), (hi, hi, "upper")]
        if w > 1:
            cls.append((lo - 1, lo - 1, "reserved-of-previous-width"))
        for a, b, label in cls:
            eng = absrun.make_engine(prog)
            exits, frame = absrun.analyze(eng, body, None, _int_args_setup({1: (a, b)}))
            got = _vec_lens(exits, frame)
            rep.instance("size_as_vint size in [%d,%d]" % (a, b))
            rep.oblige(got == {"Ok(len=%d)" % w}, "SIZE-TABLE|size_as_vint|w=%d|%s" % (w, label), body.span,
                       "size_as_vint on [%d,%d] gives %s, specified Ok(len=%d)" % (a, b, sorted(got), w))
    eng = absrun.make_engine(prog)
    exits, frame = absrun.analyze(eng, body, None, _int_args_setup({1: ((1 << 56) - 1, U64)}))
    got = _vec_lens(exits, frame)
    rep.instance("size_as_vint size >= 2^56-1")
    rep.oblige(got == {"Err"}, "SIZE-TABLE|size_as_vint|too-big", body.span, "size_as_vint on [2^56-1, max] gives %s, specified Err" % sorted(got))
    # (c) fixed width
    body = find_one(prog, "tag_writer::size_as_vint_with_length")
    for L in range(1, 9):
        r = (1 << (7 * L)) - 1
        for a, b, want, label in ((0, r - 1, {"Ok(len=%d)" % L}, "fits"), (r - 1, r - 1, {"Ok(len=%d)" % L}, "max"), (r, r, {"Err"}, "reserved"), (r + 1, U64, {"Err"}, "overflow")):
            eng = absrun.make_engine(prog)
            exits, frame = absrun.analyze(eng, body, {"LENGTH": L}, _int_args_setup({1: (a, b)}))
            got = _vec_lens(exits, frame)
            rep.instance("size_as_vint_with_length::<%d> size in [%d,%d]" % (L, a, b))
            rep.oblige(got == want, "SIZE-TABLE|with_length|L=%d|%s" % (L, label), body.span,
                       "size_as_vint_with_length::<%d> on [%d,%d] gives %s, specified %s" % (L, a, b, sorted(got), sorted(want)))
    # (d) call sites: outside the helpers, the raw vint encoders may only be applied to the constants 1, 2, 4, 8
    n_sites = 0
    for b in writer_bodies_list(prog):
        for bb, t, c in b.calls():
            if c is None:
                continue
            nm = strip_generics(c["path"])
            if nm not in ("tools::Vint::as_vint", "tools::Vint::as_vint_with_length"):
                continue
            n_sites += 1
            v = _const_receiver(prog, b, t["args"][0])
            rep.instance("%s calls %s on %s" % (b.key, nm.split("::")[-1], v))
            vs_ = v if isinstance(v, tuple) else (v,)
            rep.oblige(all(x in (1, 2, 4, 8) for x in vs_), "SIZE-TABLE|raw-encoder-site|%s|%s" % (b.key, v), b.span,
                       "%s encodes a size with %s directly (receiver %s): known sizes must go through size_as_vint / size_as_vint_with_length" % (b.key, nm, v))
    helper_calls = 0
    for b in writer_bodies_list(prog):
        for bb, t, c in b.calls():
            if c is not None and strip_generics(c["path"]).startswith("tag_writer::size_as_vint"):
                helper_calls += 1
    rep.instance("size helper call sites: %d" % helper_calls)
    # vacuity guard only (that every size goes through a helper is the raw-encoder-site obligation above): closing a master and the two
    # verbatim payload writers each need one
    rep.oblige(helper_calls >= 3, "SIZE-TABLE|helper-sites", "src/tag_writer.rs", "only %d call sites of the size helpers remain (closing a master, text and binary payloads each need one)" % helper_calls)
    rep.require_floor(70, "value classes and call sites")
    return rep


def _const_receiver(prog, body, op, _depth=0):
    """value of a constant receiver (&1u8 etc.), or a description"""
    if op.get("k") == "const":
        if "v" in op:
            return int(op["v"])
        if "promoted" in op:
            pb = prog.promoted(body.path, op["promoted"])
            if pb is not None:
                for b, i, st in pb.statements(live_only=False):
                    if st["k"] == "assign" and st["rv"]["k"] == "use" and st["rv"]["op"].get("k") == "const" and "v" in st["rv"]["op"]:
                        return int(st["rv"]["op"]["v"])
        return "const?"
    if op.get("k") in ("copy", "move"):
        l = op["place"]["local"]
        for _ in range(4):
            nxt = None
            for b, i, st in body.statements():
                if st["k"] == "assign" and st["place"]["local"] == l and not st["place"]["proj"]:
                    rv = st["rv"]
                    if rv["k"] == "use":
                        return _const_receiver(prog, body, rv["op"], _depth)
                    if rv["k"] == "ref" and (not rv["place"]["proj"] or all(e["k"] == "deref" for e in rv["place"]["proj"])):
                        nxt = rv["place"]["local"]
                    elif rv["k"] == "ref":
                        return "place"
            if nxt is None:
                break
            l = nxt
        # a parameter of a private helper: the value every caller passes (all callers must agree on a constant of the allowed set)
        if 1 <= l <= body.arg_count and _depth < 3:
            vals = set()
            callers = prog.callers_of(body.path)
            for cb, cbb, ct in callers:
                if l - 1 < len(ct["args"]):
                    vals.add(_const_receiver(prog, cb, ct["args"][l - 1], _depth + 1))
            if callers and len(vals) >= 1 and all(isinstance(v, int) for v in vals):
                return tuple(sorted(vals)) if len(vals) > 1 else next(iter(vals))
        return "variable"
    return "?"


def decode_vint(bs):
    """RFC 8794 section 4: -> (value, length) of the vint at the start of bs, or None"""
    if not bs or bs[0] == 0:
        return None
    length = 9 - bs[0].bit_length()
    if len(bs) < length:
        return None
    v = bs[0] & ((1 << (8 - length)) - 1)
    for b in bs[1:length]:
        v = (v << 8) | b
    return v, length


def r_unknown_marker(ctx):
    rep = RuleReport("R-UNKNOWN-MARKER", "the size field start_unknown_size_tag emits is a constant that decodes (RFC 8794 vint) to a (value, width) the "
                     "reader classifies as unknown size, and the master is recorded as Unknown on the open-master stack")
    prog = ctx.prog
    # through the public entry (Master::Start with the unknown-size option): whatever private helper does the work
    run = WriterRun(prog, "TagWriter::write_advanced", tag_type="Master", form="Start", unknown=True, validate_result=True)
    run.run()
    consts = [d[2] for (k, d, g) in run.events if k == "mutate" and d[0] == "wb" and len(d) > 2 and d[2] and d[2][0] == "slice"]
    rep.instance("constant slices appended: %s" % consts)
    ok = rep.oblige(len(consts) == 1 and consts[0][2] is not None, "UNKNOWN-MARKER|constant", "src/tag_writer.rs",
                    "starting an unknown-size master does not append exactly one constant size field (%s)" % consts)
    if ok:
        bs = list(consts[0][2])
        dv = decode_vint(bs)
        rep.instance("marker bytes %s decode to %s" % (bs, dv))
        ok2 = rep.oblige(dv is not None and dv[1] == len(bs), "UNKNOWN-MARKER|well-formed", "src/tag_writer.rs", "marker %s is not one well-formed vint" % bs)
        if ok2:
            got = ebml_size_classes(prog, dv[1], dv[0], dv[0])
            rep.oblige(got == {"Unknown"}, "UNKNOWN-MARKER|reserved", "src/tag_writer.rs",
                       "the reader classifies the writer's marker (value %d, width %d) as %s" % (dv[0], dv[1], sorted(got)))
    # order: id first, then the marker; stack entry Unknown
    order = [d for (k, d, g) in run.events if k == "mutate" and d[0] == "wb" and d[1] == "append"]
    rep.oblige(len(order) == 2 and order[0][2] and order[0][2][0] == "iter", "UNKNOWN-MARKER|id-first", "src/tag_writer.rs", "unexpected append sequence %s" % order)
    cell = ("H", "arg", 1)
    kinds = set()
    for e in run.exits:
        ot = get_at(e.cells[cell], (run.fx["open_tags"],))
        if isinstance(ot, Arr) and isinstance(ot.elem, Struct) and isinstance(ot.elem.fields[1], Enum):
            kinds |= set(ot.elem.fields[1].variants)
    rep.instance("pushed stack entry size variants (joined with previous entries): %s" % sorted(kinds))
    pushes = [d for (k, d, g) in run.events if k == "mutate" and d[0] == "ot"]
    rep.oblige(len(pushes) == 1 and pushes[0][1] == "push", "UNKNOWN-MARKER|push", "src/tag_writer.rs", "starting an unknown-size master does not push exactly one open master")
    return rep


READER_TABLE = {
    "Master": ({"get_master_tag"}, set()),
    "UnsignedInt": ({"get_unsigned_int_tag"}, {"tools::arr_to_u64"}),
    "Integer": ({"get_signed_int_tag"}, {"tools::arr_to_i64"}),
    "Utf8": ({"get_utf8_tag"}, {"std::string::String::from_utf8"}),
    "Binary": ({"get_binary_tag"}, set()),
    "Float": ({"get_float_tag"}, {"tools::arr_to_f64"}),
}
WRITER_TABLE = {"UnsignedInt": "write_unsigned_int_tag", "Integer": "write_signed_int_tag", "Utf8": "write_utf8_tag", "Binary": "write_binary_tag",
                "Float": "write_float_tag", None: "write_binary_tag"}
DECODERS = {"tools::arr_to_u64", "tools::arr_to_i64", "tools::arr_to_f64", "std::string::String::from_utf8"}


def r_codec_pair(ctx):
    rep = RuleReport("R-CODEC-PAIR", "per TagDataType (and for untyped ids): read_tag uses the constructor and payload decoder the trait contract assigns to "
                     "the type, write_explicit_sized the matching accessor and payload encoder; the two dispatches are exhaustive")
    prog = ctx.prog
    tdt = prog.adts.get("TagDataType")
    if tdt is None:
        raise AnchorLost("enum TagDataType not found")
    vnames = [v["name"] for v in tdt["variants"]]
    rt = find_one(prog, "TagIterator::read_tag")
    # the dispatching switch: on the discriminant of a TagDataType with the most arms
    best = None
    for b in sorted(rt.live_blocks()):
        t = rt.blocks[b]["term"]
        if t["k"] != "switch":
            continue
        for st in reversed(rt.blocks[b]["stmts"]):
            if st["k"] == "assign" and st["rv"]["k"] == "discr" and t["discr"].get("place", {}).get("local") == st["place"]["local"]:
                p = strip_generics((st["rv"]["place"].get("ty") or {}).get("path", ""))
                if p.endswith("TagDataType") and (best is None or len(t["targets"]) > len(best[1]["targets"])):
                    best = (b, t)
    if best is None or len(best[1]["targets"]) < len(vnames) - 1:
        raise AnchorLost("read_tag: dispatch on TagDataType not found")
    sb, st_ = best
    arms = {v: tg for v, tg in st_["targets"]}
    arms_o = st_["otherwise"]
    for vi, vn in enumerate(vnames):
        tgt = arms.get(vi, arms_o)
        region = {b for b in rt.live_blocks() if rt.edge_dominates((sb, tgt), b)} if len([1 for x in arms.values() if x == tgt]) + (1 if arms_o == tgt else 0) == 1 else set()
        ctors, decs = set(), set()
        for b in region:
            t = rt.blocks[b]["term"]
            if t["k"] == "call":
                nm = mirlib.callee_name(t) or ""
                if nm.split("::")[-1].startswith("get_") and "EbmlSpecification" in nm:
                    ctors.add(nm.split("::")[-1])
                if nm in DECODERS:
                    decs.add(nm)
        want_c, want_d = READER_TABLE[vn]
        rep.instance("read_tag %s arm: constructors %s decoders %s" % (vn, sorted(ctors), sorted(decs)))
        rep.oblige(ctors == want_c and decs == want_d, "CODEC-PAIR|reader|%s" % vn, rt.span,
                   "read_tag's %s arm uses %s / %s, the trait contract assigns %s / %s" % (vn, sorted(ctors), sorted(decs), sorted(want_c), sorted(want_d)))
    raw = rt.calls_to(lambda nm, c: nm.endswith("EbmlSpecification::get_raw_tag"))
    rep.instance("read_tag raw arm: %d get_raw_tag call(s)" % len(raw))
    rep.oblige(len(raw) == 1, "CODEC-PAIR|reader|raw", rt.span, "read_tag does not build untyped elements with get_raw_tag exactly once")
    # writer, semantically: the accessor models answer Some only for the matching type, so a wrong pairing reaches a 'Bad specification' panic
    for t, want in WRITER_TABLE.items():
        run = WriterRun(prog, "TagWriter::write_advanced", tag_type=t, validate_result=True).run()
        # the typed payload writers among the calls (other helpers whose names happen to start with write_ do not encode a payload);
        # raw bytes and UTF-8 text are both written verbatim, so either of the two verbatim writers serves a Utf8 element
        typed = set(WRITER_TABLE.values())
        calls = [d.split("<")[0] for (k, d, g) in run.events if k == "call" and d.split("<")[0] in typed]
        if t == "Utf8":
            calls = [want if x == WRITER_TABLE.get("Binary") else x for x in calls]
        panics = [o for o in run.eng.obligations.values() if o.kind == "PANIC" and not o.ok]
        if t is None:
            panics = [o for o in panics]
        rep.instance("writer type=%s: %s, reachable spec panics %d" % (t, sorted(set(calls)), len(panics)))
        rep.oblige(set(calls) == {want} and not panics, "CODEC-PAIR|writer|%s" % t, "src/tag_writer.rs",
                   "writing a %s element uses %s (expected %s); reachable 'bad specification' panics: %s" % (t, sorted(set(calls)), want, [o.fn for o in panics][:3]))
    rep.require_floor(13, "type arms")
    return rep


def _classes(signed):
    if not signed:
        return [(1, 0, 255), (2, 256, 65535), (4, 65536, (1 << 32) - 1), (8, 1 << 32, U64)]
    return [(1, -128, 127), (2, 128, 32767), (2, -32768, -129), (4, 32768, (1 << 31) - 1), (4, -(1 << 31), -32769), (8, 1 << 31, (1 << 63) - 1), (8, -(1 << 63), -(1 << 31) - 1)]


def r_payload_width(ctx):
    rep = RuleReport("R-PAYLOAD-WIDTH", "per value class and size-field form: the numeric writers append id, a size field declaring w, then exactly w payload "
                     "bytes, with w the minimal width in {1,2,4,8} for integers and 8 for floats")
    prog = ctx.prog
    widths = [None, 1, 8] if ctx.tier == "quick" else [None] + list(range(1, 9))
    for t, signed in (("UnsignedInt", False), ("Integer", True)):
        for w, lo, hi in _classes(signed):
            for (a, b, label) in ((lo, hi, "class"), (lo, lo, "lo"), (hi, hi, "hi")):
                for k in widths:
                    run = WriterRun(prog, "TagWriter::write_advanced", tag_type=t, size_len=k, validate_result=True, data_class=(a, b)).run()
                    seqs = _append_seq(run)
                    inst = "%s value in [%d,%d] size-width %s" % (t, a, b, k)
                    rep.instance(inst)
                    ok, why = _seq_ok(seqs, w, k)
                    rep.oblige(ok, "PAYLOAD-WIDTH|%s|w=%d|%s|%s|k=%s" % (t, w, "neg" if hi < 0 else "pos", label, k), "src/tag_writer.rs",
                               "%s: append sequence %s — %s" % (inst, seqs, why))
    for k in widths:
        run = WriterRun(prog, "TagWriter::write_advanced", tag_type="Float", size_len=k, validate_result=True).run()
        seqs = _append_seq(run)
        rep.instance("Float size-width %s" % k)
        ok, why = _seq_ok(seqs, 8, k)
        rep.oblige(ok, "PAYLOAD-WIDTH|Float|k=%s" % k, "src/tag_writer.rs", "Float size-width %s: append sequence %s — %s" % (k, seqs, why))
    rep.require_floor(60, "value classes")
    return rep


def _append_seq(run):
    return [d[1:] for (k, d, g) in run.events if k == "mutate" and d[0] == "wb" and d[1] in ("append", "push")]


def _seq_ok(seq, w, k):
    """[('append', ('iter', ..)) id] [size] [('append', ('slice', w, _)) payload]"""
    # the id comes first: appended from an iterator over its significant bytes, or pushed byte by byte (bytes of an arbitrary id are not constants)
    n_id = 0
    while n_id < len(seq) and ((seq[n_id][0] == "append" and seq[n_id][1] and seq[n_id][1][0] == "iter") or (seq[n_id][0] == "push" and seq[n_id][1] is None)):
        n_id += 1
    if n_id == 0:
        return False, "the first append is not the id"
    if len(seq) - n_id != 2:
        return False, "expected the id followed by two appends (size field, payload)"
    size, pay = seq[n_id:]
    declared = None
    if size[0] == "push":
        if k not in (None, 0):
            return False, "a one-byte size field is pushed although width %s was requested" % k
        if size[1] is None:
            return False, "size byte is not a constant"
        dv = decode_vint([size[1]])
        declared = dv[0] if dv else None
    elif size[0] == "append" and size[1] and size[1][0] == "slice":
        n, bs = size[1][1], size[1][2]
        if k in (None, 0) or n != k:
            return False, "size field has %s bytes, requested %s" % (n, k)
        if bs is None:
            return False, "size field bytes are not constant"
        dv = decode_vint(list(bs))
        declared = dv[0] if dv and dv[1] == n else None
    else:
        return False, "unrecognised size field %s" % (size,)
    if declared != w:
        return False, "declared size %s, minimal/expected width %d" % (declared, w)
    if not (pay[0] == "append" and pay[1] and pay[1][0] == "slice" and pay[1][1] == w):
        return False, "payload append %s does not have %d bytes" % (pay, w)
    return True, ""
