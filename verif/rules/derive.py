"""C18 — derived specifications.

R-DERIVE-EXPANSION   translation validation of the macro expansion: a corpus of declarations (fixed + VERIF_SEED-generated), each written in
                     both front-end syntaxes, is compiled *to MIR only* against /repo's current derive crate; the generated trait
                     methods are read as finite tables by abstract evaluation per id class (every constant of the method's own
                     switch table plus an unlisted representative) / per enum variant and compared with the meaning computed from
                     the declaration table alone.  The generated code is never executed.
R-DERIVE-REJECTS     one compile-fail witness per rejection class, each with a twin that differs in one token and must compile.
"""
import os
import shutil
import subprocess
import tempfile
import absrun
import mirlib
import specgen
from absval import Arr, Enum, Int, Ref, Struct, Top
from core import AnchorLost, RuleReport
from mirlib import strip_generics

SPEC_TRAIT = "ebml_iterable::specs::EbmlSpecification"
TAG_TRAIT = "ebml_iterable::specs::EbmlTag"


# ----------------------------------------------------------------------------------------------------
# harness
# ----------------------------------------------------------------------------------------------------
def _cargo_env(ctx, tgt, out=None):
    root = ctx.root
    env = dict(os.environ)
    sysroot = subprocess.run(["rustc", "+nightly", "--print", "sysroot"], capture_output=True, text=True).stdout.strip()
    env.update({
        "LD_LIBRARY_PATH": sysroot + "/lib", "RUSTFLAGS": "-Zmir-opt-level=0 -Awarnings", "RUSTC_WRAPPER": os.path.join(root, "driver/target/debug/mir2json"),
        "CARGO_NET_OFFLINE": "true", "CARGO_TARGET_DIR": tgt, "MIR2JSON_CRATE_PREFIX": "specs_harness,ebml_iterable_specification",
        "MIR2JSON_OUT": out or os.path.join(tgt, "facts-unused"),
    })
    return env


def _write_harness(ctx, d, modules, features=()):
    os.makedirs(os.path.join(d, "src"), exist_ok=True)
    with open(os.path.join(d, "Cargo.toml"), "w") as f:
        f.write('[package]\nname = "specs_harness"\nversion = "0.0.0"\nedition = "2018"\n\n[dependencies]\n'
                'ebml-iterable = { path = "%s", features = ["derive-spec"] }\n\n[features]\n%s\n[workspace]\n' %
                (os.path.abspath(ctx.repo), "".join("%s = []\n" % x for x in features)))
    shutil.copy(os.path.join(ctx.repo, "Cargo.lock"), os.path.join(d, "Cargo.lock"))
    with open(os.path.join(d, "src/lib.rs"), "w") as f:
        f.write("#![allow(dead_code, unused_imports, non_camel_case_types)]\n")
        for cfg, name, body in modules:
            if cfg:
                f.write('#[cfg(feature = "%s")]\n' % cfg)
            f.write("pub mod %s {\n%s\n}\n" % (name, body))


def _cargo_check(ctx, d, tgt, out=None, features=()):
    cmd = ["cargo", "+nightly", "check", "--offline", "--quiet"]
    if features:
        cmd += ["--features", ",".join(features)]
    if out:
        os.makedirs(out, exist_ok=True)
    return subprocess.run(cmd, cwd=d, env=_cargo_env(ctx, tgt, out), capture_output=True, text=True)


# ----------------------------------------------------------------------------------------------------
# reading the generated code
# ----------------------------------------------------------------------------------------------------
class Reader:
    def __init__(self, prog, spec):
        self.prog = prog
        self.spec = spec              # e.g. "d0::a::S"
        self.adt = prog.adts.get(spec)
        if self.adt is None:
            raise AnchorLost("enum %s not found in the expansion" % spec)
        self.vnames = [v["name"] for v in self.adt["variants"]]
        tdt = prog.adts.get("TagDataType") or prog.adts.get("ebml_iterable::specs::TagDataType")
        pp = prog.adts.get("PathPart") or prog.adts.get("ebml_iterable::specs::PathPart")
        if tdt is None or pp is None:
            raise AnchorLost("TagDataType / PathPart not found in the specification crate")
        self.tdt = [v["name"] for v in tdt["variants"]]
        self.pp = [v["name"] for v in pp["variants"]]

    def fn(self, trait, name):
        k = "<%s as %s<%s>>::%s" % (self.spec, trait, self.spec, name)
        b = self.prog.bodies.get(k)
        if b is None:
            raise AnchorLost("generated method %s not found" % k)
        return b

    def switch_constants(self, body):
        """constants of the switch(es) on the first argument; None when the id is used in any other way to branch"""
        consts = set()
        for bb in sorted(body.live_blocks()):
            t = body.blocks[bb]["term"]
            if t["k"] == "switch":
                d = t["discr"]
                if d.get("k") in ("copy", "move") and d["place"]["local"] == 1 and not d["place"]["proj"]:
                    consts |= {v for v, _ in t["targets"]}
        return consts

    def run(self, body, setup_args):
        eng = absrun.make_engine(self.prog)

        def setup(e, st, fr):
            for i, mk in setup_args.items():
                st.cells[fr.cell(i)] = mk(e, st, fr) if callable(mk) else mk
        exits, fr = absrun.analyze(eng, body, None, setup)
        out = []
        for e in exits:
            v = e.cells.get(fr.cell(0))
            out.append((v, e, eng))
        bad = [o.desc for o in eng.obligations.values() if not o.ok]
        return out, bad

    def self_variant(self, body, idx, payload=None):
        """&self with *self known to be variant idx"""
        def mk(eng, st, fr):
            r = eng.top_of(body.locals[1]["ty"], st, ("arg", 1))
            v = st.cells[r.cell]
            if not isinstance(v, Enum) or idx not in v.variants:
                raise AnchorLost("cannot build variant %d of %s" % (idx, self.spec))
            pl = v.variants[idx]
            if payload is not None:
                pl = payload(pl)
            st.cells[r.cell] = Enum(v.path, {idx: pl})
            return r
        return mk


def _opt(v):
    """Option value -> ('none',) | ('some', payload) | None when not decided"""
    if isinstance(v, Enum) and strip_generics(v.path) == "std::option::Option" and len(v.variants) == 1:
        (k, pl), = v.variants.items()
        return ("none",) if k == 0 else ("some", pl[0])
    return None


def _read_path(R, v, st, eng):
    if isinstance(v, Ref) and v.cell is not None:
        v = eng.read_loc(st, (v.cell, v.path))
    if not isinstance(v, Arr) or not v.len.is_const():
        return None
    out = []
    for i in range(v.len.lo):
        p = (v.cells or {}).get(i)
        if not isinstance(p, Enum) or len(p.variants) != 1:
            return None
        (k, pl), = p.variants.items()
        nm = R.pp[k]
        if nm == "Id":
            if not (isinstance(pl[0], Int) and pl[0].is_const()):
                return None
            out.append(("id", pl[0].lo))
        else:
            t = pl[0]
            if not isinstance(t, Struct) or len(t.fields) != 2:
                return None
            b = []
            for f in t.fields:
                o = _opt(f)
                if o is None:
                    return None
                if o[0] == "none":
                    b.append(None)
                elif isinstance(o[1], Int) and o[1].is_const():
                    b.append(o[1].lo)
                else:
                    return None
            out.append(("global", b[0], b[1]))
    return out


GETTERS = [("get_unsigned_int_tag", "UnsignedInt"), ("get_signed_int_tag", "Integer"), ("get_utf8_tag", "Utf8"), ("get_binary_tag", "Binary"),
           ("get_float_tag", "Float"), ("get_master_tag", "Master")]
ACCESSORS = [("as_unsigned_int", "UnsignedInt"), ("as_signed_int", "Integer"), ("as_utf8", "Utf8"), ("as_binary", "Binary"), ("as_float", "Float"),
             ("as_master", "Master")]


def validate(rep, prog, spec, decl, label):
    """compare the generated code of `spec` with the declaration table; -> number of table cells compared"""
    R = Reader(prog, spec)
    exp = specgen.expected(decl)
    n = 0
    key = lambda what: "EXPANSION|%s|%s" % (label, what)
    where = "%s (%s)" % (spec, label)
    # the enum itself: declared variants in order, then Crc32, Void, RawTag; one field of the type the data type implies
    got = []
    for v in R.adt["variants"]:
        tys = [f["ty"].get("s") or f["ty"].get("path") or f["ty"].get("k") for f in v["fields"]]
        got.append((v["name"], tys))
    want = []
    for name, ty in exp["variants"]:
        if ty is None:
            want.append((name, ["u64", "std::vec::Vec<u8>"]))
        elif ty == "Master":
            want.append((name, ["ebml_iterable::specs::Master<%s>" % spec]))
        else:
            want.append((name, [specgen.FIELD_TY[ty]]))
    import re as _re

    def _t(t):
        t = _re.sub(r",\s*(std|alloc)::alloc::Global", "", str(t))
        return t.replace("alloc::vec::Vec", "std::vec::Vec").replace("alloc::string::String", "std::string::String")
    norm = lambda xs: [(a, [_t(t) for t in b]) for a, b in xs]
    n += len(want)
    rep.oblige(norm(got) == norm(want), key("enum-shape"), where, "generated enum is %s, the declaration means %s" % (norm(got), norm(want)))
    if [g[0] for g in got] != [w[0] for w in want]:
        return n
    ids = sorted(exp["type_by_id"])
    probes = [i for i in (0x7f, 0x1fffffff, 0xbe) if i not in exp["type_by_id"]][:2]
    U64 = lambda x: Int.const(x, 64, False)

    def classes(body, expected_consts, what):
        cs = R.switch_constants(body)
        rep.oblige(cs == set(expected_consts), key(what + "|table-keys"), where,
                   "%s branches on ids %s, the declaration means %s" % (what, sorted(map(hex, cs)), sorted(map(hex, expected_consts))))
        return sorted(cs | set(expected_consts)) + probes

    # get_tag_data_type
    b = R.fn(SPEC_TRAIT, "get_tag_data_type")
    for i in classes(b, ids, "get_tag_data_type"):
        outs, bad = R.run(b, {1: U64(i)})
        res = _opt(outs[0][0]) if len(outs) == 1 else None
        want_t = exp["type_by_id"].get(i)
        if want_t is None:
            ok = res == ("none",)
        else:
            ok = res is not None and res[0] == "some" and isinstance(res[1], Enum) and [R.tdt[k] for k in res[1].variants] == [want_t]
        n += 1
        rep.oblige(ok and not bad, key("get_tag_data_type|0x%x" % i), where, "get_tag_data_type(0x%x) is %s, declared %s" % (i, outs[0][0] if outs else "?", want_t))
    # get_path_by_id
    b = R.fn(SPEC_TRAIT, "get_path_by_id")
    with_path = [i for i in ids if exp["path_by_id"][i]]
    for i in classes(b, with_path, "get_path_by_id"):
        outs, bad = R.run(b, {1: U64(i)})
        got_p = _read_path(R, outs[0][0], outs[0][1], outs[0][2]) if len(outs) == 1 else None
        want_p = exp["path_by_id"].get(i, [])
        n += 1
        rep.oblige(got_p == want_p and not bad, key("get_path_by_id|0x%x" % i), where, "get_path_by_id(0x%x) is %s, declared %s" % (i, got_p, want_p))
    # typed constructors
    for fn, ty in GETTERS:
        b = R.fn(SPEC_TRAIT, fn)
        mine = [i for i in ids if exp["type_by_id"][i] == ty]
        for i in classes(b, mine, fn):
            args = {1: U64(i)}
            if ty == "UnsignedInt":
                args[2] = U64(0x1234)
            outs, bad = R.run(b, args)
            res = _opt(outs[0][0]) if len(outs) == 1 else None
            n += 1
            if i in mine:
                name = [nm for nm, t, id_, p in list(decl) + [specgen.V(*g) for g in specgen.GLOBALS] if id_ == i][0]
                ok = res is not None and res[0] == "some" and isinstance(res[1], Enum) and [R.vnames[k] for k in res[1].variants] == [name]
                if ok and ty == "UnsignedInt":
                    pl = list(res[1].variants.values())[0][0]
                    ok = isinstance(pl, Int) and pl.is_const() and pl.lo == 0x1234
                rep.oblige(ok and not bad, key("%s|0x%x" % (fn, i)), where, "%s(0x%x, data) is %s, the declaration means Some(%s(data))" % (fn, i, outs[0][0] if outs else "?", name))
            else:
                rep.oblige(res == ("none",) and not bad, key("%s|0x%x" % (fn, i)), where,
                           "%s(0x%x, ..) is %s although the id is %s" % (fn, i, outs[0][0] if outs else "?", exp["type_by_id"].get(i, "not declared")))
    # get_raw_tag
    b = R.fn(SPEC_TRAIT, "get_raw_tag")
    outs, bad = R.run(b, {1: U64(0x77)})
    v = outs[0][0] if len(outs) == 1 else None
    ok = isinstance(v, Enum) and [R.vnames[k] for k in v.variants] == ["RawTag"]
    if ok:
        f0 = list(v.variants.values())[0][0]
        ok = isinstance(f0, Int) and f0.is_const() and f0.lo == 0x77
    n += 1
    rep.oblige(ok and not bad, key("get_raw_tag"), where, "get_raw_tag(0x77, data) is %s, expected RawTag(0x77, data)" % (v,))
    # get_id and the accessors, per variant
    b = R.fn(TAG_TRAIT, "get_id")
    for idx, (name, ty) in enumerate(exp["variants"]):
        if ty is None:
            mk = R.self_variant(b, idx, payload=lambda pl: (Int.const(0x4242, 64, False),) + tuple(pl[1:]))
            want_id = 0x4242
        else:
            mk = R.self_variant(b, idx)
            want_id = exp["id_by_variant"][name]
        outs, bad = R.run(b, {1: mk})
        v = outs[0][0] if len(outs) == 1 else None
        n += 1
        rep.oblige(isinstance(v, Int) and v.is_const() and v.lo == want_id and not bad, key("get_id|%s" % name), where,
                   "%s.get_id() is %s, declared 0x%x" % (name, v, want_id))
    for fn, ty in ACCESSORS:
        b = R.fn(TAG_TRAIT, fn)
        for idx, (name, vty) in enumerate(exp["variants"]):
            outs, bad = R.run(b, {1: R.self_variant(b, idx)})
            res = _opt(outs[0][0]) if len(outs) == 1 else None
            should = (vty == ty) or (vty is None and ty == "Binary")
            n += 1
            ok = res is not None and ((res[0] == "some") == should)
            rep.oblige(ok and not bad, key("%s|%s" % (fn, name)), where,
                       "%s.%s() is %s, the declaration means %s" % (name, fn, outs[0][0] if outs else "?", "Some(payload)" if should else "None"))
    return n


# ----------------------------------------------------------------------------------------------------
# rules
# ----------------------------------------------------------------------------------------------------
def _corpus(ctx):
    decls = dict(specgen.FIXED)
    n = 6 if ctx.tier == "quick" else 60
    decls.update(specgen.seeded(ctx.seed, n))
    return decls


def r_derive_expansion(ctx):
    rep = RuleReport("R-DERIVE-EXPANSION", "for every declaration of the corpus, in both front-end syntaxes, the generated enum and all 16 generated trait "
                     "methods, read as finite tables from their MIR (abstract evaluation per id class / per variant, never executed), equal the "
                     "meaning computed from the declaration table: declared type and path per id (none/empty otherwise), typed constructors succeed "
                     "exactly for ids of that type, get_id and the accessors per variant, Crc32/Void/RawTag added")
    decls = _corpus(ctx)
    tmp = tempfile.mkdtemp(prefix="verif-specs.")
    try:
        mods = []
        names = sorted(decls)
        for k, nm in enumerate(names):
            mods.append((None, "d%d" % k, "  pub mod a {\n%s\n  }\n  pub mod e {\n%s\n  }" % (specgen.render_attr(decls[nm]), specgen.render_easy(decls[nm]))))
        _write_harness(ctx, tmp, mods)
        out = os.path.join(tmp, "facts")
        r = _cargo_check(ctx, tmp, os.path.join(tmp, "target"), out)
        if r.returncode != 0 or not os.path.exists(os.path.join(out, "specs_harness.json")):
            # a declaration of the corpus that must be accepted was rejected (or the derive crate does not build)
            rep.violation("EXPANSION|corpus-rejected", "specification-derive", "the well-formed declaration corpus does not compile against the derive macros: %s" % r.stderr.strip()[-1500:])
            return rep
        prog = mirlib.Program(out)
        total = 0
        for k, nm in enumerate(names):
            for fe in ("a", "e"):
                spec = "d%d::%s::S" % (k, fe)
                c = validate(rep, prog, spec, decls[nm], "%s/%s" % (nm, "attribute" if fe == "a" else "easy_ebml"))
                total += c
                rep.instance("%s [%s]: %d variants, %d table cells compared" % (nm, "attribute" if fe == "a" else "easy_ebml", len(decls[nm]), c))
            rep.analysed.append(nm)
        rep.notes.append("corpus: %d fixed + %d seeded (seed %d) declarations x 2 front-ends; %d table cells" % (len(specgen.FIXED), len(decls) - len(specgen.FIXED), ctx.seed, total))
        if total < 400:
            raise AnchorLost("R-DERIVE-EXPANSION: only %d table cells compared" % total)
    finally:
        shutil.rmtree(tmp, ignore_errors=True)
    return rep


def r_derive_rejects(ctx):
    rep = RuleReport("R-DERIVE-REJECTS", "each rejection class has a witness declaration that fails to compile against the current derive macros and a twin "
                     "differing in one token that compiles (so the failure is due to that token)")
    tmp = tempfile.mkdtemp(prefix="verif-witness.")
    try:
        mods = []
        feats = []
        for k, (cls, bad, twin) in enumerate(specgen.WITNESSES):
            mods.append((None, "t%d" % k, twin))
            mods.append(("w%d" % k, "w%d" % k, bad))
            feats.append("w%d" % k)
        _write_harness(ctx, tmp, mods, feats)
        tgt = os.path.join(tmp, "target")
        r = _cargo_check(ctx, tmp, tgt)
        twins_ok = r.returncode == 0
        rep.instance("all %d twins compile together: %s" % (len(specgen.WITNESSES), twins_ok))
        rep.oblige(twins_ok, "REJECTS|twins", "specification-derive", "a twin declaration that must be accepted was rejected: %s" % r.stderr.strip()[-1500:])
        if not twins_ok:
            return rep
        for k, (cls, bad, twin) in enumerate(specgen.WITNESSES):
            r = _cargo_check(ctx, tmp, tgt, features=["w%d" % k])
            failed = r.returncode != 0
            in_harness = "src/lib.rs" in r.stderr
            first = next((l for l in r.stderr.splitlines() if l.startswith("error")), "")
            rep.instance("%s: %s%s" % (cls, "rejected" if failed else "ACCEPTED", (" — " + first[:120]) if first else ""))
            rep.oblige(failed and in_harness, "REJECTS|%s" % cls, "specification-derive",
                       "a declaration of class '%s' is accepted by the derive macros (its twin, differing in one token, is well-formed)" % cls)
        rep.require_floor(len(specgen.WITNESSES) + 1, "witnesses")
    finally:
        shutil.rmtree(tmp, ignore_errors=True)
    return rep
