"""closing — which element closes an unknown-size master (C07), and that nothing but an unknown-size master is ever closed by an element
(C06, C07, C11, C13).

R-ENDED-BY-TABLE   abstract interpretation of the closing predicate (spec_util::is_ended_by) per class of (declared path of the open master,
                   declared path and type of the incoming element): the answer is the constant the EBML rule prescribes for the class.
                   The classes quantify over all paths of a shape (any length, any other ids, placeholders anywhere); ids are two fixed
                   distinct constants, which loses nothing because the predicate uses ids only through equality.
R-CLOSE-UNKNOWN-ONLY  with every open master of known size, neither the path matcher nor read_next ever consults the closing predicate
                   (so a known-size master can only be closed by its byte count), while with unknown-size masters the matcher does.
"""
import absrun
from absval import Arr, Enum, Int, Iter, Ref, Struct, Top, ISIZE_MAX
from core import AnchorLost, RuleReport
from rules.common import find_one, ret_value
from mirlib import strip_generics

OPTION = "std::option::Option"
CUR_ID = 0x18538067          # the open unknown-size master
TEST_ID = 0x1F43B675         # the incoming element
OTHER = (0x100, 0xFFFF)      # ids that are neither

PRED = "spec_util::is_ended_by"
MATCHER = "spec_util::validate_tag_path"


def _pp(eng, st, ty_elem, kind):
    """abstract PathPart values: 'T' = Id(TEST_ID), 'O' = Id(some other id), 'G' = Global(any bounds), 'OG' = O or G"""
    path = ty_elem.get("path", "")
    info = eng.adt_info(path) or eng.adt_info(path.split("::")[-1])
    if info is None or not info.get("is_enum") or sorted(v["name"] for v in info["variants"]) != ["Global", "Id"]:
        raise AnchorLost("PathPart is no longer the two-variant enum {Id, Global}")
    idx = {v["name"]: v.get("discr", i) for i, v in enumerate(info["variants"])}
    gl = next(v for v in info["variants"] if v["name"] == "Global")
    out = {}
    if "T" in kind:
        out[idx["Id"]] = (Int.const(TEST_ID, 64, False),)
    if "O" in kind:
        out[idx["Id"]] = (Int(OTHER[0], OTHER[1], 64, False),)
    if "G" in kind:
        out[idx["Global"]] = tuple(eng.top_of(f["ty"], st, ("pp", kind, i)) for i, f in enumerate(gl["fields"]))
    return Enum(path, out)


class _Paths:
    """models of the specification for one class"""

    def __init__(self, cur, test, test_type):
        self.cur, self.test, self.test_type = cur, test, test_type
        self.consulted = 0

    def build(self, eng, st, ty_elem, spec):
        lo, hi, elem, cells = spec
        cs = {k: _pp(eng, st, ty_elem, v) for k, v in (cells or {}).items()}
        e = _pp(eng, st, ty_elem, elem) if elem else Top()
        return Arr(Int(lo, hi, 64, False) if lo != hi else Int.const(lo, 64, False), e, cs or None, "slice")

    def m_path(self, c):
        v, _ = c.arg_int(0)
        ty = c.ret_ty() or {}
        el = (ty.get("to") or {}).get("of")
        if v is None or not v.is_const() or el is None:
            c.ret_top()
            return
        which = "cur" if v.lo == CUR_ID else ("test" if v.lo == TEST_ID else None)
        if which is None:
            c.ret_top()
            return
        spec = self.cur if which == "cur" else self.test
        if spec == "same":
            which, spec = "cur", self.cur
        cell = ("H", "path", which)
        if cell not in c.st.cells:
            c.st.cells[cell] = self.build(c.I, c.st, el, spec)
        c.ret(Ref(cell, ()))

    def m_type(self, c):
        v, _ = c.arg_int(0)
        if v is not None and v.is_const() and v.lo == TEST_ID and self.test_type is not None:
            top = c.I.top_of(c.ret_ty(), c.st, ("ty",))
            if self.test_type == "None":
                c.ret(Enum(OPTION, {0: ()}))
            else:
                c.ret(Enum(OPTION, {1: top.variants[1]}) if isinstance(top, Enum) and 1 in top.variants else top)
            return
        c.ret_top()


def m_slice_eq(c):
    """== on two path slices: the same static is equal to itself (PathPart's derived equality is reflexive); different lengths or element
    kinds that exclude each other are unequal; anything else is undecided"""
    a, _ = c.arg(0)
    b, _ = c.arg(1)
    locs = []
    for v in (a, b):
        loc = None
        for _hop in range(3):
            if isinstance(v, Ref) and v.cell is not None:
                loc = (v.cell, v.path)
                v = c.I.read_loc(c.st, loc)
            else:
                break
        locs.append((v, loc))
    (va, la), (vb, lb) = locs
    neg = c.name.endswith("::ne")
    if isinstance(va, Arr) and isinstance(vb, Arr):
        res = None
        if la is not None and la == lb:
            res = 1
        elif va.len.hi < vb.len.lo or vb.len.hi < va.len.lo:
            res = 0
        elif isinstance(va.elem, Enum) and isinstance(vb.elem, Enum) and not va.cells and not vb.cells and not (set(va.elem.variants) & set(vb.elem.variants)) \
                and (va.len.lo >= 1 or vb.len.lo >= 1):
            res = 0
        if res is not None:
            c.ret(Int.const(res ^ (1 if neg else 0), 1, False))
            return
        c.ret(Int.boolean())
        return
    return NotImplemented


BIG = ISIZE_MAX

# (name, path of the open master, path of the incoming element, its type, prescribed answer, why)
CLASSES = [
    ("ancestor-first", (2, BIG, "OG", {0: "T"}), (0, BIG, "OG", None), "Some", 1, "the element is the outermost declared ancestor of the master"),
    ("ancestor-middle", (3, BIG, "OG", {1: "T"}), (0, BIG, "OG", None), "Some", 1, "the element is a declared ancestor in the middle of the master's path"),
    ("ancestor-direct", (2, 2, "OG", {1: "T"}), (0, BIG, "OG", None), "Some", 1, "the element is the master's direct parent"),
    ("sibling", (0, BIG, "OG", None), "same", "Some", 1, "the element has the same declared path as the master"),
    ("root", (1, BIG, "OG", None), (0, 0, None, None), "Some", 1, "the element is a root element of the specification"),
    ("unrelated-deeper", (2, BIG, "O", None), (1, 1, "O", None), "Some", 0, "the element is neither ancestor, sibling nor root"),
    ("unrelated-of-root-master", (0, 0, None, None), (1, BIG, "OG", None), "Some", 0, "a child of anything never closes a root master"),
    ("global", (1, BIG, "O", None), (1, 1, "G", None), "Some", 0, "a global element never closes a master"),
    ("unspecified-id", (1, BIG, "OG", None), (0, 0, None, None), "None", 0, "an id outside the specification is not a root element"),
]


def _pred_engine(prog, paths):
    eng = absrun.make_engine(prog)
    eng.models = dict(eng.models)
    eng.models["#prefix"] = [(p, f) for (p, f) in eng.models["#prefix"] if not p.startswith(("ebml_iterable_specification::", "EbmlSpecification::", "EbmlTag::"))]
    eng.models["ebml_iterable_specification::EbmlSpecification::get_path_by_id"] = paths.m_path
    eng.models["ebml_iterable_specification::EbmlSpecification::get_tag_data_type"] = paths.m_type
    for nm in ("std::cmp::PartialEq::eq", "std::cmp::PartialEq::ne"):
        old = eng.models.get(nm)

        def both(c, old=old):
            r = m_slice_eq(c)
            if r is NotImplemented and old is not None:
                return old(c)
            return r
        eng.models[nm] = both
    return eng


def r_ended_by_table(ctx):
    rep = RuleReport("R-ENDED-BY-TABLE", "abstract interpretation of the closing predicate per class of declared paths (ancestor at the first / a middle / "
                     "the last position of a path of any length, same path, root element, unrelated element, global element, unspecified id): the answer "
                     "is the constant RFC 8794 §6.2 prescribes for the class")
    prog = ctx.prog
    body = find_one(prog, PRED)
    rep.analysed.append(body.key)
    if body.arg_count != 2:
        raise AnchorLost("the closing predicate no longer takes (open master id, incoming id)")
    for name, cur, test, ttype, want, why in CLASSES:
        paths = _Paths(cur, test, ttype)
        eng = _pred_engine(prog, paths)

        def setup(eng_, st, frame):
            st.cells[frame.cell(1)] = Int.const(CUR_ID, 64, False)
            st.cells[frame.cell(2)] = Int.const(TEST_ID, 64, False)
        exits, frame = absrun.analyze(eng, body, None, setup)
        got = set()
        for e in exits:
            v = ret_value(e, frame)
            if isinstance(v, Int) and v.is_const():
                got.add(v.lo)
            else:
                got |= {0, 1}
        rep.instance("%s: answers %s, prescribed %s" % (name, sorted(got), want))
        bad = [o for o in eng.obligations.values() if not o.ok]
        rep.oblige(got == {want}, "ENDED-BY|%s" % name, body.span,
                   "closing predicate, class '%s' (%s): possible answers %s, prescribed %s" % (name, why, sorted(bool(x) for x in got), bool(want)))
        rep.oblige(not bad, "ENDED-BY|%s|total" % name, body.span, "closing predicate, class '%s': may panic (%s)" % (name, [o.desc for o in bad][:2]))
    rep.require_floor(9, "path classes")
    return rep


# ----------------------------------------------------------------------------------------------
# only unknown-size masters are closed by an element
# ----------------------------------------------------------------------------------------------
def _is_pred(prog, name):
    """the closing predicate itself, or a function that does nothing but ask it (its only library callee besides accessors)"""
    if name == PRED:
        return True
    b = prog.bodies.get(name)
    if b is None:
        return False
    callees = [strip_generics(c["path"]) for _, _, c in b.calls() if c]
    return PRED in callees and len(b.blocks) <= 6


def _matcher_run(prog, size_variant):
    body = find_one(prog, MATCHER)
    eng = absrun.make_engine(prog, no_inline=[PRED])
    eng.models = dict(eng.models)
    seen = {"n": 0}

    def m_pred(c):
        seen["n"] += 1
        c.ret(Int.boolean())
    eng.models[PRED] = m_pred
    info = eng.adt_info("tag_iterator_util::EBMLSize")
    if info is None:
        raise AnchorLost("EBMLSize not found")
    names = [v["name"] for v in info["variants"]]

    def setup(eng_, st, frame):
        size = Enum("tag_iterator_util::EBMLSize", {names.index("Known"): (Int(0, ISIZE_MAX, 64, False),)} if size_variant == "Known" else {names.index("Unknown"): ()})
        item = Struct("tuple", [Int.top(64, False), size, Int(0, 8, 64, False)])
        st.cells[frame.cell(2)] = Iter("slice", Int(0, ISIZE_MAX, 64, False), item, extra="val")
    exits, frame = absrun.analyze(eng, body, None, setup)
    return seen["n"], exits, eng, body


def r_close_unknown_only(ctx):
    rep = RuleReport("R-CLOSE-UNKNOWN-ONLY", "abstract interpretation of the path matcher and of read_next with every open master of known size: the closing "
                     "predicate is never consulted (a known-size master ends where its byte count says, never because of the element that follows); "
                     "with unknown-size masters the matcher does consult it")
    prog = ctx.prog
    n_known, exits, eng, body = _matcher_run(prog, "Known")
    rep.analysed.append(body.key)
    rep.instance("matcher, all open masters known-size: closing predicate consulted %d times, %d exits" % (n_known, len(exits)))
    rep.oblige(n_known == 0, "CLOSE-UNKNOWN-ONLY|matcher", body.span,
               "validate_tag_path consults the closing predicate for a known-size open master: an element can be accepted as 'closing' a master whose size says it is still open")
    if not exits:
        raise AnchorLost("R-CLOSE-UNKNOWN-ONLY: the matcher run has no exit")
    n_unk, exits2, _, _ = _matcher_run(prog, "Unknown")
    rep.instance("matcher, all open masters unknown-size: closing predicate consulted %d times" % n_unk)
    rep.oblige(n_unk >= 1, "CLOSE-UNKNOWN-ONLY|matcher|consults", body.span,
               "validate_tag_path no longer asks whether the element closes an open unknown-size master")
    # reader
    from rules import iterator
    bits = iterator.tolerance_bits(ctx, rep)
    if "HierarchyProblems" not in bits:
        raise AnchorLost("R-CLOSE-UNKNOWN-ONLY: no tolerance bit for hierarchy problems")
    job = iterator.known_stack_job(bits["HierarchyProblems"])
    res = iterator.run_analyses(ctx, [job])[job]
    reached = [e for e in res["extra"] if e["kind"] == "CLOSE_KNOWN_REACHED"]
    bad = [e for e in res["extra"] if e["kind"] == "CLOSE_KNOWN"]
    rep.analysed.append(res["entry"])
    rep.instance("read_next, all open masters known-size: header read on %d paths, closing predicate consulted at %d sites" % (len(reached), len(bad)))
    if not reached:
        raise AnchorLost("R-CLOSE-UNKNOWN-ONLY: the read_next run never got past reading a header")
    for i, e in enumerate(bad):
        rep.oblige(False, "CLOSE-UNKNOWN-ONLY|read_next|%s" % e["fn"].split("::")[-1], e["where"],
                   "%s consults the closing predicate although the innermost open master has a known size" % e["fn"])
    rep.oblige(True, "CLOSE-UNKNOWN-ONLY|read_next|run", res["entry"], "")
    return rep


# ----------------------------------------------------------------------------------------------
# the path matcher, decided per class of (declared path, chain of open known-size masters)
# ----------------------------------------------------------------------------------------------
A_ID, B_ID = 0x10, 0x20

# path parts: ("id", n) | ("g", min|None, max|None);  chain: (list of leading ids, tail length interval or None[, trailing ids]) — tail ids are OTHER —
# or ("seq", [id | "o", ...]): a chain of fixed length given master by master, "o" being any master with an id in OTHER
MATCHER_CLASSES = [
    ("exact", [("id", A_ID), ("id", B_ID)], ([A_ID, B_ID], None), 1, "the chain is exactly the declared path"),
    ("root-at-top", [], ([], None), 1, "a root element with no master open"),
    ("root-inside-master", [], ([], (1, BIG)), 0, "a root element while any master is open"),
    ("deeper-than-declared", [("id", A_ID)], ([A_ID], (1, BIG)), 0, "masters are open below the declared parent"),
    ("shallower-than-declared", [("id", A_ID), ("id", B_ID)], ([A_ID], None), 0, "the declared parent is not open"),
    ("wrong-parent", [("id", A_ID)], ([], (1, 1)), 0, "the open master is not the declared parent"),
    ("wrong-order", [("id", A_ID), ("id", B_ID)], ([B_ID, A_ID], None), 0, "the declared parents are open in the wrong order"),
    ("trailing-placeholder-within", [("id", A_ID), ("g", 1, 2)], ([A_ID], (1, 2)), 1, "between min and max arbitrary masters follow the named parent"),
    ("trailing-placeholder-exceeded", [("id", A_ID), ("g", 1, 2)], ([A_ID], (3, 3)), 0, "more masters than the placeholder's maximum"),
    ("trailing-placeholder-far-exceeded", [("id", A_ID), ("g", None, 2)], ([A_ID], (4, 4)), 0, "more masters than the placeholder's maximum"),
    ("trailing-placeholder-below-min", [("id", A_ID), ("g", 1, None)], ([A_ID], None), 0, "fewer masters than the placeholder's minimum"),
    ("trailing-placeholder-open", [("id", A_ID), ("g", None, None)], ([A_ID], (0, 3)), 1, "an unbounded placeholder accepts any number of masters"),
    ("global-element-at-top", [("g", None, None)], ([], None), 1, "a global element with no master open"),
    ("global-element-min-at-top", [("g", 1, None)], ([], None), 0, "a global element that needs a parent, with no master open"),
    ("global-element-inside", [("g", 1, None)], ([], (1, 3)), 1, "a global element inside masters"),
    ("intermediate-placeholder-empty", [("id", A_ID), ("g", 0, 1), ("id", B_ID)], ([A_ID, B_ID], None), 1, "an intermediate placeholder (0-1) matching no master"),
    ("intermediate-placeholder-one", [("id", A_ID), ("g", 0, 1), ("id", B_ID)], ([A_ID], (1, 1), [B_ID]), 1, "an intermediate placeholder (0-1) matching one master"),
    ("intermediate-placeholder-exceeded", [("id", A_ID), ("g", 0, 1), ("id", B_ID)], ([A_ID], (2, 2), [B_ID]), 0, "an intermediate placeholder (0-1) cannot match two masters"),
    ("intermediate-placeholder-below-min", [("id", A_ID), ("g", 1, None), ("id", B_ID)], ([A_ID, B_ID], None), 0, "an intermediate placeholder (1-) needs a master between the named ones"),
    ("intermediate-placeholder-min-met", [("id", A_ID), ("g", 1, None), ("id", B_ID)], ([A_ID], (1, 1), [B_ID]), 1, "an intermediate placeholder (1-) with one master between the named ones"),
    # two placeholders separated by a named parent: each placeholder counts its own masters (chains in sequence form: ids and "o" = any other master)
    ("two-placeholders-second-within", [("id", A_ID), ("g", 1, None), ("id", B_ID), ("g", 1, 2)], ("seq", [A_ID, "o", "o", B_ID, "o", "o"]), 1,
     "the second placeholder (1-2) matches two masters however many the first one (1-) matched"),
    ("two-placeholders-second-below-min", [("id", A_ID), ("g", 1, None), ("id", B_ID), ("g", 1, 2)], ("seq", [A_ID, "o", B_ID]), 0,
     "the second placeholder (1-2) needs a master of its own; what the first one matched does not count"),
    ("two-placeholders-second-exceeded", [("id", A_ID), ("g", 0, 3), ("id", B_ID), ("g", 1, 2)], ("seq", [A_ID, B_ID, "o", "o", "o"]), 0,
     "the second placeholder (1-2) cannot match three masters although the first one (0-3) matched none"),
    ("two-placeholders-first-min-after-second", [("id", A_ID), ("g", 2, None), ("id", B_ID), ("g", None, None), ("id", A_ID)], ("seq", [A_ID, "o", "o", B_ID, "o", A_ID]), 1,
     "named parents after each of two placeholders, each placeholder within its own bounds"),
    # a master matched by a placeholder may carry the id of the named parent that follows the placeholder ("arbitrary masters")
    ("placeholder-matches-named-id", [("id", A_ID), ("g", None, None), ("id", B_ID)], ("seq", [A_ID, B_ID, B_ID]), 1,
     "the placeholder matches a master that has the id of the named parent following it (chain A/B/B against A/(-)/B)"),
]


def _matcher_class_run(prog, parts, chain):
    body = find_one(prog, MATCHER)
    eng = absrun.make_engine(prog, no_inline=[PRED])
    eng.models = dict(eng.models)
    eng.models["#prefix"] = [(p, f) for (p, f) in eng.models["#prefix"] if not p.startswith(("ebml_iterable_specification::", "EbmlSpecification::", "EbmlTag::"))]
    consulted = {"n": 0}

    def m_pred(c):
        consulted["n"] += 1
        c.ret(Int.boolean())
    eng.models[PRED] = m_pred

    def m_path(c):
        ty = c.ret_ty() or {}
        el = (ty.get("to") or {}).get("of")
        if el is None:
            raise AnchorLost("get_path_by_id no longer returns a slice of path parts")
        path = el.get("path", "")
        info = eng.adt_info(path)
        if info is None or sorted(v["name"] for v in info["variants"]) != ["Global", "Id"]:
            raise AnchorLost("PathPart is no longer the two-variant enum {Id, Global}")
        idx = {v["name"]: v.get("discr", i) for i, v in enumerate(info["variants"])}

        def opt(x):
            return Enum(OPTION, {0: ()}) if x is None else Enum(OPTION, {1: (Int.const(x, 64, False),)})
        cells = {}
        for i, p in enumerate(parts):
            if p[0] == "id":
                cells[i] = Enum(path, {idx["Id"]: (Int.const(p[1], 64, False),)})
            else:
                cells[i] = Enum(path, {idx["Global"]: (Struct("tuple", [opt(p[1]), opt(p[2])]),)})
        cell = ("H", "path", "tag")
        c.st.cells[cell] = Arr(Int.const(len(parts), 64, False), Top() if not parts else cells[0], cells or None, "slice")
        c.ret(Ref(cell, ()))
    eng.models["ebml_iterable_specification::EbmlSpecification::get_path_by_id"] = m_path
    info = eng.adt_info("tag_iterator_util::EBMLSize")
    if info is None:
        raise AnchorLost("EBMLSize not found")
    known = [v["name"] for v in info["variants"]].index("Known")

    def item(idv):
        return Struct("tuple", [idv, Enum("tag_iterator_util::EBMLSize", {known: (Int(0, ISIZE_MAX, 64, False),)}), Int(0, 8, 64, False)])
    other = item(Int(OTHER[0], OTHER[1], 64, False))
    if chain[0] == "seq":
        lead, tail, trail = [], None, []
        seq_cells = {i: (other if x == "o" else item(Int.const(x, 64, False))) for i, x in enumerate(chain[1])}
    else:
        lead, tail = chain[0], chain[1]
        trail = chain[2] if len(chain) > 2 else []
        seq_cells = None
    cells = {i: item(Int.const(x, 64, False)) for i, x in enumerate(lead)}
    lo = len(lead) + (tail[0] if tail else 0) + len(trail)
    hi = len(lead) + (tail[1] if tail else 0) + len(trail)
    if trail:
        if not tail or tail[0] != tail[1]:
            raise ValueError("a trailing named master needs a tail of fixed length")
        for j in range(tail[0]):
            cells[len(lead) + j] = other
        for j, x in enumerate(trail):
            cells[len(lead) + tail[0] + j] = item(Int.const(x, 64, False))
    elif tail and tail[1] <= 4:
        for j in range(tail[0]):
            cells[len(lead) + j] = other
    if seq_cells is not None:
        cells = seq_cells
        lo = hi = len(seq_cells)

    def setup(eng_, st, frame):
        st.cells[frame.cell(1)] = Int.const(TEST_ID, 64, False)
        st.cells[frame.cell(2)] = Iter("slice", Int(lo, hi, 64, False) if lo != hi else Int.const(lo, 64, False), other, extra="val", cells=cells or None, pos=0)
    exits, frame = absrun.analyze(eng, body, None, setup)
    got = set()
    for e in exits:
        v = ret_value(e, frame)
        got |= {v.lo} if isinstance(v, Int) and v.is_const() else {0, 1}
    bad = [o for o in eng.obligations.values() if not o.ok]
    return got, bad, consulted["n"], body


def r_matcher_table_rejects(ctx):
    """C06's view of the table: strict mode emits only hierarchy-valid sequences, so what matters there is that every class whose prescribed
    answer is 'reject' is rejected; a chain that is wrongly rejected yields an error, not an invalid emitted sequence (that direction is C11's)."""
    return r_matcher_table(ctx, only_rejects=True)


def r_matcher_table(ctx, only_rejects=False):
    rep = RuleReport("R-MATCHER-TABLE", ("(classes with prescribed answer 'reject' decide; the others are run for totality and the known-only clause) " if only_rejects else "") + "abstract interpretation of the path matcher per class of (declared path, chain of open known-size masters): exact chain, "
                     "root element with and without open masters, chain deeper / shallower than declared, wrong parent, wrong order, trailing and "
                     "intermediate placeholders at, within and beyond their bounds, global elements: the answer is the one the declared-path "
                     "semantics prescribes; tails of chains are of arbitrary length and arbitrary other ids where the class allows")
    prog = ctx.prog
    for name, parts, chain, want, why in MATCHER_CLASSES:
        got, bad, n_pred, body = _matcher_class_run(prog, parts, chain)
        rep.instance("%s: answers %s, prescribed %s" % (name, sorted(got), want))
        if only_rejects and want == 1:
            rep.notes.append("class '%s' (prescribed accept): answers %s — over-rejection is not this property's concern" % (name, sorted(got)))
        else:
            rep.oblige(got == {want}, "MATCHER|%s" % name, body.span,
                       "path matcher, class '%s' (%s): possible answers %s, prescribed %s" % (name, why, sorted(bool(x) for x in got), bool(want)))
        rep.oblige(not bad, "MATCHER|%s|total" % name, body.span, "path matcher, class '%s': may panic (%s)" % (name, [o.desc for o in bad][:2]))
        rep.oblige(n_pred == 0, "MATCHER|%s|known-only" % name, body.span, "path matcher, class '%s': consults the closing predicate for known-size masters" % name)
    rep.analysed.append(MATCHER)
    rep.require_floor(len(MATCHER_CLASSES), "path/chain classes")
    return rep
