"""rules for the vint codec (C15) and the fixed-width payload decoders / writer widths (C16).

Everything here is decided by abstract interpretation of tools.rs (and the numeric writers of
tag_writer.rs) over a *complete finite partition* of the input space: leading-byte classes,
widths 1–8, slice lengths 0–9, the 64 ilog2 classes.  Within a class the interpreter computes
the set of possible results; the rule compares it with the class's specified result.
"""
import absrun
from absint import State
from absval import Arr, Enum, Int, Ref, Struct, Top, ISIZE_MAX
from core import AnchorLost, RuleReport
from lin import LinForm
from rules.common import find_one, obligation_findings, ret_value

U64 = (1 << 64) - 1
I64_MIN, I64_MAX = -(1 << 63), (1 << 63) - 1

A_WIDTH = "A-WIDTH: public width parameters are within the documented range 1..=8"


def _into_model(lo, hi, bits=64, signed=False):
    def m(c):
        c.ret(Int(lo, hi, bits, signed) if lo != hi else Int.const(lo, bits, signed))
    return m


def _engine(prog, into=None, **opt):
    eng = absrun.make_engine(prog, **opt)
    if into is not None:
        eng.models = dict(eng.models)
        eng.models["std::convert::Into::into"] = _into_model(*into)
    return eng


def _slice_len_setup(lo, hi, first_byte=None):
    def setup(eng, st, frame):
        r = st.cells[frame.cell(1)]
        arr = st.cells[r.cell]
        cells = {}
        if first_byte is not None:
            cells[0] = Int(first_byte[0], first_byte[1], 8, False) if first_byte[0] != first_byte[1] else Int.const(first_byte[0], 8, False)
        st.cells[r.cell] = Arr(Int(lo, hi, 64, False) if lo != hi else Int.const(lo, 64, False), arr.elem, cells, arr.container)
    return setup


def _result_shape(v):
    """summarise a Result<..> abstract value -> set of ('Ok', detail) / ('Err',)"""
    out = set()
    if not isinstance(v, Enum):
        return {("?",)}
    for idx, pay in v.variants.items():
        if idx == 1:
            out.add(("Err",))
        else:
            out.add(("Ok", pay[0]))
    return out


# ----------------------------------------------------------------------------------------------
# C15 / C16  R-PANIC over tools.rs
# ----------------------------------------------------------------------------------------------
def r_panic_tools(ctx, which):
    rep = RuleReport("R-PANIC(%s)" % which, "every panic edge (compiler-inserted assert, std precondition, explicit panic) reachable "
                     "from the public codec functions is unreachable for every input")
    prog = ctx.prog
    ctx.need_file("ebml_iterable", "src/tools.rs")
    runs = []
    if which == "vint":
        runs += [("tools::read_vint", {}, None, None), ("tools::read_signed_vint", {}, None, None), ("tools::is_vint", {}, None, None),
                 ("tools::Vint::as_vint", {}, None, None), ("tools::SignedVint::as_signed_vint", {}, None, None)]
        for L in range(1, 9):
            runs.append(("tools::Vint::as_vint_with_length", {"LENGTH": L}, None, None))

        def width_setup(eng, st, frame):
            st.cells[frame.cell(2)] = Int(1, 8, 64, False)
        runs.append(("tools::SignedVint::as_signed_vint_with_length", {}, width_setup, A_WIDTH))
    else:
        # complete partition of the slice length: 0, 1, ..., 9 and >= 10 (the decoders reject everything above 8)
        for fn in ("tools::arr_to_u64", "tools::arr_to_i64", "tools::arr_to_f64"):
            for L in range(0, 10):
                runs.append((fn, {}, _slice_len_setup(L, L), None, "len=%d" % L))
            runs.append((fn, {}, _slice_len_setup(10, ISIZE_MAX), None, "len>=10"))
    for run in runs:
        fn, cp, setup, assumption = run[:4]
        label = run[4] if len(run) > 4 else None
        body = find_one(prog, fn)
        eng = _engine(prog)
        absrun.analyze(eng, body, cp, setup)
        rep.instance("%s%s%s" % (fn, cp or "", " [%s]" % label if label else ""))
        rep.analysed.append(body.key)
        if assumption:
            rep.assumed.append(assumption)
        if "LENGTH" in cp and A_WIDTH not in rep.assumed:
            rep.assumed.append(A_WIDTH)
        suffix = "" if not cp else "<%s>" % ",".join("%s=%s" % kv for kv in sorted(cp.items()))
        if label:
            suffix += "[%s]" % label
        n = obligation_findings(rep, eng, prefix="PANIC%s" % suffix)
        if eng.unmodelled:
            rep.notes.append("unmodelled calls in %s: %s" % (fn, dict(eng.unmodelled)))
        for note in eng.notes:
            rep.notes.append(note)
        rep.samples.append({"fn": fn + suffix, "obligations": len(eng.obligations), "undischarged": n})
    rep.require_floor(5 if which == "vint" else 3, "entry points")
    if rep.obligations < (60 if which == "vint" else 8):
        raise AnchorLost("%s: only %d panic obligations found, expected more (driver lost asserts?)" % (rep.rule, rep.obligations))
    return rep


def r_panic_vint(ctx):
    return r_panic_tools(ctx, "vint")


def r_panic_payload(ctx):
    return r_panic_tools(ctx, "payload")


# ----------------------------------------------------------------------------------------------
# C15 decoders: length, need-more-data, sibling agreement
# ----------------------------------------------------------------------------------------------
def r_vint_decode(ctx):
    rep = RuleReport("R-VINT-LEN/SIBLING", "per leading-byte class and slice length: Err iff first byte is 0; None iff the slice is a proper "
                     "prefix; Some((_, n)) has n = announced length <= slice length; signed and unsigned decoders agree on n")
    prog = ctx.prog
    table = {}
    for fn in ("tools::read_vint", "tools::read_signed_vint"):
        body = find_one(prog, fn)
        rep.analysed.append(body.key)
        for k in range(-1, 8):            # -1: first byte == 0
            fb = (0, 0) if k < 0 else (1 << k, (1 << (k + 1)) - 1)
            L = None if k < 0 else 8 - k
            for m in list(range(1, 10)) + ["big"]:
                lo, hi = (m, m) if m != "big" else (10, ISIZE_MAX)
                eng = _engine(prog)
                exits, frame = absrun.analyze(eng, body, None, _slice_len_setup(lo, hi, fb))
                shapes = set()
                for e in exits:
                    v = ret_value(e, frame)
                    for s in _result_shape(v):
                        if s[0] == "Ok" and isinstance(s[1], Enum):
                            for oi, pay in s[1].variants.items():
                                if oi == 0:
                                    shapes.add("None")
                                else:
                                    t = pay[0]
                                    n = t.fields[1] if isinstance(t, Struct) else None
                                    shapes.add("Some(n=%s)" % (n.lo if isinstance(n, Int) and n.is_const() else "?"))
                        else:
                            shapes.add(s[0])
                mm = m if m != "big" else 10
                if k < 0:
                    want = {"Err"}
                elif mm < L:
                    want = {"None"}
                else:
                    want = {"Some(n=%d)" % L}
                inst = "%s first-byte-class=%s len=%s" % (fn.split("::")[-1], "0" if k < 0 else "2^%d.." % k, m)
                rep.instance(inst)
                table[(fn, k, m)] = shapes
                key = "VINT-DECODE|%s|class=%s|len=%s" % (fn, k, m)
                rep.oblige(shapes == want, key, body.span, "%s: results %s, specified %s" % (inst, sorted(shapes), sorted(want)),
                           {"got": sorted(shapes), "want": sorted(want)})
        # empty slice
        eng = _engine(prog)
        exits, frame = absrun.analyze(eng, body, None, _slice_len_setup(0, 0))
        shapes = set()
        for e in exits:
            for s in _result_shape(ret_value(e, frame)):
                if s[0] == "Ok" and isinstance(s[1], Enum):
                    shapes |= {"None" if i == 0 else "Some" for i in s[1].variants}
                else:
                    shapes.add(s[0])
        rep.instance("%s empty slice" % fn)
        rep.oblige(shapes == {"None"}, "VINT-DECODE|%s|empty" % fn, body.span, "%s on the empty slice gives %s, specified None" % (fn, sorted(shapes)))
    # sibling agreement
    for k in range(-1, 8):
        for m in list(range(1, 10)) + ["big"]:
            a = table.get(("tools::read_vint", k, m))
            b = table.get(("tools::read_signed_vint", k, m))
            rep.oblige(a == b, "VINT-SIBLING|class=%s|len=%s" % (k, m), "src/tools.rs", "decoders disagree for class %s len %s: %s vs %s" % (k, m, a, b))
    rep.samples.append({"class 2^6..(2 bytes), len 1": sorted(table[("tools::read_vint", 6, 1)]), "len 2": sorted(table[("tools::read_vint", 6, 2)])})
    rep.require_floor(180, "class x length cases")
    return rep


# ----------------------------------------------------------------------------------------------
# C15 encoders
# ----------------------------------------------------------------------------------------------
def _vec_len(v):
    if isinstance(v, Arr) and isinstance(v.len, Int) and v.len.is_const():
        return v.len.lo
    return None


def _encode_outcomes(exits, frame):
    out = set()
    for e in exits:
        v = ret_value(e, frame)
        for s in _result_shape(v):
            if s[0] == "Ok":
                n = _vec_len(s[1])
                out.add("Ok(len=%s)" % ("?" if n is None else n))
            else:
                out.add(s[0])
    return out


def r_vint_encode(ctx):
    rep = RuleReport("R-VINT-SHORTEST/OVERFLOW/SIGNED-RANGE", "per value class: the default encoders use exactly the least width, the fixed-width "
                     "encoders succeed exactly when the value fits (unsigned: < 2^(7L); signed: strictly inside ±2^(7L-1)) and emit exactly L bytes")
    prog = ctx.prog
    # --- as_vint: shortest width
    body = find_one(prog, "tools::Vint::as_vint")
    rep.analysed.append(body.key)
    classes = [(1, 0, (1 << 7) - 1)] + [(w, 1 << (7 * (w - 1)), (1 << (7 * w)) - 1) for w in range(2, 9)] + [(None, 1 << 56, U64)]
    for w, lo, hi in classes:
        # also probe the two boundary values exactly, so an off-by-one shows up as a boundary finding
        for (a, b, label) in ((lo, hi, "class"), (lo, lo, "lower-bound"), (hi, hi, "upper-bound")):
            eng = _engine(prog, into=(a, b))
            exits, frame = absrun.analyze(eng, body)
            got = _encode_outcomes(exits, frame)
            want = {"Err"} if w is None else {"Ok(len=%d)" % w}
            inst = "as_vint val in [%d,%d] (%s of width %s)" % (a, b, label, w)
            rep.instance(inst)
            rep.oblige(got == want, "VINT-SHORTEST|as_vint|width=%s|%s" % (w, label), body.span, "%s: outcomes %s, specified %s" % (inst, sorted(got), sorted(want)))
    # --- as_vint_with_length::<L>
    body = find_one(prog, "tools::Vint::as_vint_with_length")
    rep.analysed.append(body.key)
    rep.assumed.append(A_WIDTH)
    for L in range(1, 9):
        for (a, b, want, label) in ((0, (1 << (7 * L)) - 1, {"Ok(len=%d)" % L}, "fits"), ((1 << (7 * L)) - 1, (1 << (7 * L)) - 1, {"Ok(len=%d)" % L}, "max"),
                                     (1 << (7 * L), 1 << (7 * L), {"Err"}, "first-overflow"), (1 << (7 * L), U64, {"Err"}, "overflow")):
            eng = _engine(prog, into=(a, b))
            exits, frame = absrun.analyze(eng, body, {"LENGTH": L})
            got = _encode_outcomes_array(exits, frame)
            inst = "as_vint_with_length::<%d> val in [%d,%d]" % (L, a, b)
            rep.instance(inst)
            rep.oblige(got == want, "VINT-OVERFLOW|L=%d|%s" % (L, label), body.span, "%s: outcomes %s, specified %s" % (inst, sorted(got), sorted(want)))
    # --- signed fixed width
    body = find_one(prog, "tools::SignedVint::as_signed_vint_with_length")
    rep.analysed.append(body.key)
    for L in range(1, 9):
        h = 1 << (7 * L - 1)
        cases = [(-h + 1, h - 1, {"Ok(len=%d)" % L}, "fits"), (-h + 1, -h + 1, {"Ok(len=%d)" % L}, "min"), (h - 1, h - 1, {"Ok(len=%d)" % L}, "max"),
                 (h, h, {"Err"}, "first-too-big"), (-h, -h, {"Err"}, "first-too-small"), (h, I64_MAX, {"Err"}, "too-big"), (I64_MIN, -h, {"Err"}, "too-small")]
        for a, b, want, label in cases:
            eng = _engine(prog, into=(a, b, 64, True))

            def setup(eng_, st, frame, L=L):
                st.cells[frame.cell(2)] = Int.const(L, 64, False)
            exits, frame = absrun.analyze(eng, body, None, setup)
            got = _encode_outcomes(exits, frame)
            inst = "as_signed_vint_with_length(%d) val in [%d,%d]" % (L, a, b)
            rep.instance(inst)
            rep.oblige(got == want, "SIGNED-RANGE|L=%d|%s" % (L, label), body.span, "%s: outcomes %s, specified %s" % (inst, sorted(got), sorted(want)))
    # --- signed default width: least width whose two's-complement range contains the value
    body = find_one(prog, "tools::SignedVint::as_signed_vint")
    rep.analysed.append(body.key)
    for w in range(1, 9):
        h = 1 << (7 * w - 1)
        hp = (1 << (7 * (w - 1) - 1)) if w > 1 else 0
        pos = (hp, h - 1)
        neg = (-h if w < 8 else -h + 1, -hp - 1)
        for (a, b, label) in ((pos[0], pos[1], "pos"), (pos[0], pos[0], "pos-lo"), (pos[1], pos[1], "pos-hi"), (neg[0], neg[1], "neg"),
                              (neg[0], neg[0], "neg-lo"), (neg[1], neg[1], "neg-hi")):
            eng = _engine(prog, into=(a, b, 64, True))
            exits, frame = absrun.analyze(eng, body)
            got = _encode_outcomes(exits, frame)
            want = {"Ok(len=%d)" % w}
            inst = "as_signed_vint val in [%d,%d]" % (a, b)
            rep.instance(inst)
            rep.oblige(got == want, "SIGNED-SHORTEST|width=%d|%s" % (w, label), body.span, "%s: outcomes %s, specified %s" % (inst, sorted(got), sorted(want)))
    for (a, b, label) in (((1 << 55), I64_MAX, "too-big"), (I64_MIN, -(1 << 55), "too-small")):
        eng = _engine(prog, into=(a, b, 64, True))
        exits, frame = absrun.analyze(eng, body)
        got = _encode_outcomes(exits, frame)
        rep.instance("as_signed_vint val in [%d,%d]" % (a, b))
        rep.oblige(got == {"Err"}, "SIGNED-SHORTEST|%s" % label, body.span, "as_signed_vint out of range: outcomes %s, specified Err" % sorted(got))
    rep.require_floor(150, "value classes")
    return rep


def _encode_outcomes_array(exits, frame):
    out = set()
    for e in exits:
        v = ret_value(e, frame)
        for s in _result_shape(v):
            if s[0] == "Ok":
                n = _vec_len(s[1])
                out.add("Ok(len=%s)" % ("?" if n is None else n))
            else:
                out.add(s[0])
    return out


def r_isvint(ctx):
    rep = RuleReport("R-ISVINT", "over the 64 classes k = ilog2(val) and val = 0: is_vint is true exactly for k in {7,14,...,56}")
    prog = ctx.prog
    body = find_one(prog, "tools::is_vint")
    rep.analysed.append(body.key)

    def run(lo, hi):
        eng = _engine(prog)

        def setup(eng_, st, frame):
            st.cells[frame.cell(1)] = Int(lo, hi, 64, False) if lo != hi else Int.const(lo, 64, False)
        exits, frame = absrun.analyze(eng, body, None, setup)
        vals = set()
        for e in exits:
            v = ret_value(e, frame)
            if isinstance(v, Int):
                vals.update(range(v.lo, v.hi + 1))
            else:
                vals.update((0, 1))
        return vals
    got = run(0, 0)
    rep.instance("val = 0")
    rep.oblige(got == {0}, "ISVINT|zero", body.span, "is_vint(0) may be %s, specified false" % sorted(got))
    for k in range(64):
        got = run(1 << k, (1 << (k + 1)) - 1)
        want = {1} if (k % 7 == 0 and 7 <= k <= 56) else {0}
        rep.instance("val in [2^%d, 2^%d)" % (k, k + 1))
        rep.oblige(got == want, "ISVINT|k=%d" % k, body.span, "is_vint on [2^%d,2^%d) may be %s, specified %s" % (k, k + 1, sorted(got), sorted(want)))
    rep.require_floor(65, "ilog2 classes")
    return rep


# ----------------------------------------------------------------------------------------------
# C16 decoders
# ----------------------------------------------------------------------------------------------
def r_dec_class(ctx):
    rep = RuleReport("R-DEC-CLASS", "per slice length 0..9 and >9: integer decoders return Ok for length <= 8 (Ok(0) for the empty slice) and Err otherwise; "
                     "the float decoder returns Ok exactly for lengths 4 and 8")
    prog = ctx.prog
    for fn, ok_lens in (("tools::arr_to_u64", set(range(0, 9))), ("tools::arr_to_i64", set(range(0, 9))), ("tools::arr_to_f64", {4, 8})):
        body = find_one(prog, fn)
        rep.analysed.append(body.key)
        for m in list(range(0, 11)) + ["big"]:
            lo, hi = (m, m) if m != "big" else (11, ISIZE_MAX)
            eng = _engine(prog)
            exits, frame = absrun.analyze(eng, body, None, _slice_len_setup(lo, hi))
            got = set()
            zero = True
            for e in exits:
                v = ret_value(e, frame)
                for s in _result_shape(v):
                    got.add(s[0])
                    if s[0] == "Ok":
                        zero = zero and isinstance(s[1], Int) and s[1].is_const() and s[1].lo == 0
            want = {"Ok"} if (m != "big" and m in ok_lens) else {"Err"}
            inst = "%s len=%s" % (fn.split("::")[-1], m)
            rep.instance(inst)
            rep.oblige(got == want, "DEC-CLASS|%s|len=%s" % (fn, m), body.span, "%s: outcomes %s, specified %s" % (inst, sorted(got), sorted(want)))
            if m == 0 and fn != "tools::arr_to_f64":
                rep.oblige(got == {"Ok"} and zero, "DEC-CLASS|%s|empty-is-zero" % fn, body.span, "%s of the empty slice is not provably Ok(0)" % fn)
    rep.require_floor(36, "length classes")
    return rep


# ----------------------------------------------------------------------------------------------
# value-range tables: the decoded value lies in the range its width and sign class allow
# ----------------------------------------------------------------------------------------------
def _cells_setup(length, cells):
    def setup(eng, st, frame):
        r = st.cells[frame.cell(1)]
        arr = st.cells[r.cell]
        cs = {k: (Int(lo, hi, 8, False) if lo != hi else Int.const(lo, 8, False)) for k, (lo, hi) in cells.items()}
        st.cells[r.cell] = Arr(Int.const(length, 64, False), arr.elem, cs, arr.container)
    return setup


def _ok_int_range(exits, frame, unwrap_some_tuple=False):
    lo, hi, n = None, None, 0
    for e in exits:
        v = ret_value(e, frame)
        if not isinstance(v, Enum) or 0 not in v.variants:
            continue
        x = v.variants[0][0]
        if unwrap_some_tuple:
            if not isinstance(x, Enum) or 1 not in x.variants:
                continue
            t = x.variants[1][0]
            x = t.fields[0] if isinstance(t, Struct) else None
        if not isinstance(x, Int):
            return None
        lo = x.lo if lo is None else min(lo, x.lo)
        hi = x.hi if hi is None else max(hi, x.hi)
        n += 1
    if n == 0:
        return None
    return lo, hi


def r_vint_range(ctx):
    rep = RuleReport("R-VINT-RANGE", "per width L and sign class of the leading bits: read_vint's value lies in [0, 2^(7L)), "
                     "read_signed_vint's value lies in [0, 2^(7L-1)) when the sign bit is clear and in [-2^(7L-1), 0) when it is set")
    prog = ctx.prog
    body = find_one(prog, "tools::read_vint")
    rep.analysed.append(body.key)
    for L in range(1, 9):
        k = 8 - L
        want = (0, (1 << (7 * L)) - 1)
        # the slice ends with the vint, or goes on with arbitrary bytes behind it (a header is decoded out of a longer buffer)
        for extra in (0, 2):
            eng = _engine(prog)
            exits, frame = absrun.analyze(eng, body, None, _cells_setup(L + extra, {0: (1 << k, (1 << (k + 1)) - 1)}))
            r = _ok_int_range(exits, frame, True)
            tail = "" if not extra else "|trailing"
            rep.instance("read_vint width %d%s" % (L, " followed by other bytes" if extra else ""))
            rep.oblige(r is not None and want[0] <= r[0] and r[1] <= want[1], "VINT-RANGE|read_vint|L=%d%s" % (L, tail), body.span,
                       "read_vint width %d%s: value range %s not within %s" % (L, " with bytes behind the vint" if extra else "", r, want))
    body = find_one(prog, "tools::read_signed_vint")
    rep.analysed.append(body.key)
    for L in range(1, 9):
        k = 8 - L
        half = 1 << (7 * L - 1)
        for sign in (0, 1):
            if L < 8:
                sb = 1 << (7 - L)
                base = 1 << k
                fb = (base, base + sb - 1) if sign == 0 else (base + sb, base + 2 * sb - 1)
                cells = {0: fb}
            else:
                cells = {0: (1, 1), 1: (0, 127) if sign == 0 else (128, 255)}
            want = (0, half - 1) if sign == 0 else (-half, -1)
            for extra in (0, 2):
                eng = _engine(prog)
                exits, frame = absrun.analyze(eng, body, None, _cells_setup(L + extra, cells))
                r = _ok_int_range(exits, frame, True)
                tail = "" if not extra else "|trailing"
                rep.instance("read_signed_vint width %d sign %d%s" % (L, sign, " followed by other bytes" if extra else ""))
                rep.oblige(r is not None and want[0] <= r[0] and r[1] <= want[1], "VINT-RANGE|read_signed_vint|L=%d|sign=%d%s" % (L, sign, tail), body.span,
                           "read_signed_vint width %d, sign bit %d%s: value range %s not within %s" % (L, sign, " with bytes behind the vint" if extra else "", r, want))
    rep.require_floor(24, "width/sign classes")
    return rep


def r_dec_range(ctx):
    rep = RuleReport("R-DEC-RANGE", "per slice length n in 1..8 and sign class of the first byte: arr_to_u64 lies in [0, 2^(8n)), arr_to_i64 in "
                     "[0, 2^(8n-1)) for a first byte < 128 and in [-2^(8n-1), 0) for a first byte >= 128 (two's complement, sign-extended from n bytes)")
    prog = ctx.prog
    body = find_one(prog, "tools::arr_to_u64")
    rep.analysed.append(body.key)
    for n in range(1, 9):
        for fb in ((0, 127), (128, 255)):
            eng = _engine(prog)
            exits, frame = absrun.analyze(eng, body, None, _cells_setup(n, {0: fb}))
            r = _ok_int_range(exits, frame)
            want = (fb[0] << (8 * (n - 1)), ((fb[1] + 1) << (8 * (n - 1))) - 1)
            rep.instance("arr_to_u64 len %d first byte %s" % (n, fb))
            rep.oblige(r is not None and want[0] <= r[0] and r[1] <= want[1], "DEC-RANGE|arr_to_u64|len=%d|fb=%d" % (n, fb[0]), body.span,
                       "arr_to_u64 len %d first byte in %s: value range %s not within %s" % (n, fb, r, want))
    body = find_one(prog, "tools::arr_to_i64")
    rep.analysed.append(body.key)
    for n in range(1, 9):
        half = 1 << (8 * n - 1)
        for fb, want in (((0, 127), (0, half - 1)), ((128, 255), (-half, -1)), ((128, 128), (-half, -half + (1 << (8 * (n - 1))) - 1)),
                         ((127, 127), (half - (1 << (8 * (n - 1))), half - 1))):
            eng = _engine(prog)
            exits, frame = absrun.analyze(eng, body, None, _cells_setup(n, {0: fb}))
            r = _ok_int_range(exits, frame)
            rep.instance("arr_to_i64 len %d first byte %s" % (n, fb))
            rep.oblige(r is not None and want[0] <= r[0] and r[1] <= want[1], "DEC-RANGE|arr_to_i64|len=%d|fb=%d-%d" % (n, fb[0], fb[1]), body.span,
                       "arr_to_i64 len %d first byte in %s: value range %s not within %s" % (n, fb, r, want))
    rep.require_floor(48, "length/sign classes")
    return rep
