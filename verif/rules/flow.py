"""value-flow / typestate rules over tag_iterator.rs (C03, C06, parts of C04 and C05).

R-OFFSET        every (tag, offset) pair that enters the emission queue takes `offset` from the tag_start of the very ProcessingTag
                whose tag it carries (the master's own start for End/Full items); tag_start itself is only ever the cursor sampled
                before the header is read, or 0 for implied ancestors; the cursor rebase keeps buffer_offset + position unchanged
R-STACK-END     only End-form master tags are stored on the open-master stack
R-EOF-FLAG      at end of input the open masters are popped innermost-first under the emit_master_end_when_eof switch
R-CLOSE-LOOP    unknown-size masters are closed in a loop (all that the incoming element ends), one pop per decision
R-OVERRUN-ALL   the overrun test scans every known-size ancestor
L-BUFFER-PROGRESS  buffer_master gives up (reports EOF) as soon as a refill of the queue produced no new item
"""
from core import AnchorLost, RuleReport
import mirlib
from mirlib import strip_generics, callee_name
from rules.common import find_one
from rules.writer import local_sources, _places_in_stmt

ITER = "tag_iterator::TagIterator"


def iter_bodies(prog):
    return [b for b in prog.bodies.values() if b.promoted_index is None and b.crate == "ebml_iterable" and
            (b.path.startswith(ITER + "::") or (b.parent or "").startswith(ITER + "::") or b.path.startswith("<" + ITER))]


def _def_of(body, local):
    """the unique plain assignment `local = rvalue`, or None"""
    found = None
    for b, i, st in body.statements():
        if st["k"] == "assign" and st["place"]["local"] == local and not st["place"]["proj"]:
            if found is not None:
                return None
            found = st
    return found


def _place_field(op, name):
    """operand is a (move/copy of a) place ending in field `name` -> base local, else None"""
    if op.get("k") not in ("copy", "move"):
        return None
    p = op["place"]
    fields = [e for e in p["proj"] if e["k"] == "field"]
    if fields and fields[-1].get("name") == name:
        return p["local"]
    return None


def _chase_field(body, op, name, depth=4):
    """like _place_field but follows plain copies of the operand's local"""
    for _ in range(depth):
        l = _place_field(op, name)
        if l is not None:
            return l
        if op.get("k") in ("copy", "move") and not op["place"]["proj"]:
            d = _def_of(body, op["place"]["local"])
            if d is not None and d["rv"]["k"] == "use":
                op = d["rv"]["op"]
                continue
        return None
    return None


def _is_tag_offset_tuple(st):
    if st["k"] != "assign" or st["rv"].get("agg") != "tuple" or len(st["rv"]["ops"]) != 2:
        return False
    ty = st["place"].get("ty") or {}
    if ty.get("k") != "tuple" or len(ty["of"]) != 2:
        return False
    a, b = ty["of"]
    return a.get("k") == "param" and b.get("k") == "uint" and b.get("size")


def r_offset(ctx):
    rep = RuleReport("R-OFFSET", "each (tag, offset) pair built for the emission queue pairs a ProcessingTag's tag with that same entry's tag_start; a "
                     "buffered (Full) master reports the tag_start recorded for its Start; tag_start is sampled from the cursor before the header is "
                     "consumed (0 for implied ancestors); the cursor rebase preserves buffer_offset + position")
    prog = ctx.prog
    ctx.need_file("ebml_iterable", "src/tag_iterator.rs")
    n = 0
    for b in iter_bodies(prog):
        root = prog.function_root(b)
        rn = root.name if root is not None else b.name
        for bb, i, st in b.statements():
            if not _is_tag_offset_tuple(st):
                continue
            n += 1
            o_tag, o_off = st["rv"]["ops"]
            base_tag = _chase_field(b, o_tag, "tag")
            base_off = _chase_field(b, o_off, "tag_start")
            inst = "%s bb%d" % (b.key, bb)
            if rn == "buffer_master" and base_tag is None:
                # Full item: tag = roll_up_children(..), offset = the tag_start parameter
                src_tag = local_sources(b, o_tag["place"]["local"]) if o_tag.get("k") in ("copy", "move") else set()
                off_local = o_off["place"]["local"] if o_off.get("k") in ("copy", "move") and not o_off["place"]["proj"] else None
                d = _def_of(b, off_local) if off_local is not None else None
                while d is not None and d["rv"]["k"] == "use" and d["rv"]["op"].get("k") in ("copy", "move") and not d["rv"]["op"]["place"]["proj"]:
                    off_local = d["rv"]["op"]["place"]["local"]
                    d = _def_of(b, off_local)
                is_param = off_local is not None and 1 <= off_local <= b.arg_count and b.local_name(off_local) == "tag_start"
                rep.instance("%s: Full item (tag from %s, offset param=%s)" % (inst, sorted(x for x in src_tag if "roll_up" in x), is_param))
                rep.oblige(is_param and any("roll_up_children" in x for x in src_tag), "OFFSET|buffer_master|full", b.span,
                           "the Full item's offset is not buffer_master's tag_start parameter")
                continue
            rep.instance("%s: (%s.tag, %s.tag_start)" % (inst, base_tag, base_off))
            rep.oblige(base_tag is not None and base_tag == base_off, "OFFSET|%s|pair|#%d" % (rn, bb if False else 0) + "|%s" % _site_desc(b, st), b.span,
                       "%s queues a tag with an offset that is not the tag_start of the same entry (tag from %s, offset from %s)" % (inst, base_tag, base_off))
    if n < 3:
        raise AnchorLost("R-OFFSET: only %d (tag, offset) constructions found, expected at least 3" % n)
    # the Full offset passed by read_next
    rn = find_one(prog, "TagIterator::read_next")
    calls = rn.calls_to(ITER + "::buffer_master")
    rep.instance("read_next -> buffer_master call sites: %d" % len(calls))
    for bb, t, c in calls:
        ok = len(t["args"]) >= 3 and _chase_field(rn, t["args"][2], "tag_start") is not None
        base = _chase_field(rn, t["args"][2], "tag_start") if len(t["args"]) >= 3 else None
        # must be the tag_start of the tag just read (next_tag), the same entry whose fields seed the stack entry
        rep.oblige(ok, "OFFSET|read_next|full-arg", rn.span, "buffer_master is not given the tag_start of the master that was just read")
    # where tag_start comes from
    for fn in ("read_tag", "read_next", "peek_valid_tag_header"):
        for b in [find_one(prog, "TagIterator::" + fn)] + prog.closures_of(ITER + "::" + fn):
            for bb, i, st in b.statements():
                rv = st["rv"] if st["k"] == "assign" else None
                if rv is None or rv.get("agg") != "adt" or not strip_generics(rv["path"]).endswith("ProcessingTag"):
                    continue
                ts = rv["ops"][rv["fields"].index("tag_start")]
                inst = "%s: ProcessingTag.tag_start" % b.key
                if fn == "read_tag":
                    src = local_sources(b, ts["place"]["local"]) if ts.get("k") in ("copy", "move") else set()
                    good = ("call:" + ITER + "::current_offset") in src
                    # sampled before the header is consumed: the sampling call dominates read_valid_tag_header
                    co = [x for x in b.calls_to(ITER + "::current_offset")]
                    hd = b.calls_to(ITER + "::read_valid_tag_header")
                    dom = b.dominators()
                    first = min(co, key=lambda x: len(dom[x[0]])) if co else None
                    good = good and first is not None and bool(hd) and first[0] in dom[hd[0][0]] and first[0] != hd[0][0]
                    d = _def_of(b, ts["place"]["local"]) if ts.get("k") in ("copy", "move") else None
                    rep.instance(inst + " <- current_offset() before the header")
                    rep.oblige(good, "OFFSET|read_tag|tag_start", b.span, "read_tag's tag_start is not the cursor sampled before the header is read (%s)" % sorted(src))
                elif fn == "read_next":
                    rep.instance(inst + " <- next_tag.tag_start")
                    rep.oblige(_chase_field(b, ts, "tag_start") is not None, "OFFSET|read_next|stack-entry", b.span,
                               "the stack entry pushed by read_next does not copy the tag_start of the tag that was read")
                else:
                    rep.instance(inst + " <- 0 (implied ancestor)")
                    rep.oblige(ts.get("k") == "const" and str(ts.get("v")) == "0", "OFFSET|implied-ancestor", b.span, "implied ancestors do not report offset 0")
    # last_emitted_tag_offset is set from the queued pair
    nx = [b for b in iter_bodies(prog) if b.name == "next" and b.kind != "closure"]
    if len(nx) != 1:
        raise AnchorLost("Iterator::next for TagIterator not found")
    w = [st for bb, i, st in nx[0].statements() if st["k"] == "assign" and any(e["k"] == "field" and e.get("name") == "last_emitted_tag_offset" for e in st["place"]["proj"])]
    rep.instance("next(): writes of last_emitted_tag_offset: %d" % len(w))
    ok = False
    if len(w) == 1 and w[0]["rv"]["k"] == "use":
        op = w[0]["rv"]["op"]
        for _ in range(8):
            if op.get("k") not in ("copy", "move"):
                break
            if any(e["k"] == "field" and e["i"] == 1 for e in op["place"]["proj"]):
                # the pair is the one popped from the queue (possibly looked at through a reference to the popped item)
                base = op["place"]["local"]
                srcs = set(local_sources(nx[0], base))
                for _hop in range(4):
                    db = _def_of(nx[0], base)
                    if db is None or db["rv"]["k"] != "ref":
                        break
                    base = db["rv"]["place"]["local"]
                    srcs |= set(local_sources(nx[0], base))
                ok = "call:std::collections::VecDeque::pop_front" in srcs
                break
            d = _def_of(nx[0], op["place"]["local"])
            if d is None:
                break
            if d["rv"]["k"] == "use":
                op = d["rv"]["op"]
            elif d["rv"]["k"] == "ref":
                op = {"k": "copy", "place": d["rv"]["place"]}      # a reference into the item: follow what it points into
            else:
                break
    rep.oblige(ok, "OFFSET|next|last-emitted", nx[0].span, "next() does not take last_emitted_tag_offset from the second component of the emitted pair")
    return rep


def _site_desc(b, st):
    o = st["rv"]["ops"][0]
    return mirlib.place_str(o["place"], b) if o.get("k") in ("copy", "move") else "const"


def _master_variant_of_arg(body, op):
    """name of the Master variant aggregate passed as operand (following plain copies)"""
    for _ in range(4):
        if op.get("k") not in ("copy", "move") or op["place"]["proj"]:
            return None
        d = _def_of(body, op["place"]["local"])
        if d is None:
            return None
        rv = d["rv"]
        if rv.get("agg") == "adt" and strip_generics(rv["path"]).endswith("Master"):
            return rv["variant"]
        if rv["k"] == "use":
            op = rv["op"]
            continue
        return None
    return None


def _stack_adders(b):
    """calls in body b that add elements to self.tag_stack, directly or to a vector that is then stored as the stack"""
    out = []
    staged = _staged_stacks(b)
    for cb, t, c in b.calls():
        if c is None or not t["args"]:
            continue
        nm = strip_generics(c["path"])
        if nm in ("std::vec::Vec::push", "std::vec::Vec::insert", "std::iter::Extend::extend", "std::vec::Vec::extend_from_slice", "std::vec::Vec::append"):
            a0 = t["args"][0]
            if a0.get("k") in ("copy", "move") and "field:tag_stack" in local_sources(b, a0["place"]["local"]):
                out.append((cb, t))
            elif a0.get("k") in ("copy", "move") and _borrowed_local(b, a0["place"]["local"]) in staged:
                out.append((cb, t))
    return out


def _staged_stacks(b):
    """locals holding a vector that is later stored as the whole open-master stack (`self.tag_stack = v`)"""
    out = set()
    for bb, i, st in b.statements():
        if st["k"] != "assign" or not st["place"]["proj"] or st["place"]["proj"][-1].get("name") != "tag_stack":
            continue
        rv = st["rv"]
        if rv["k"] == "use" and rv["op"].get("k") in ("copy", "move") and not rv["op"]["place"]["proj"]:
            l = rv["op"]["place"]["local"]
            out.add(l)
            out |= {int(x.split(":")[1]) for x in _moved_from(b, l)}
    return out


def _borrowed_local(b, local):
    """the local that `local` is a (mutable) reference to, following plain moves of the reference"""
    cur = local
    for _ in range(4):
        d = _def_of(b, cur)
        if d is None:
            return None
        rv = d["rv"]
        if rv["k"] == "ref" and not rv["place"]["proj"]:
            return rv["place"]["local"]
        if rv["k"] == "use" and rv["op"].get("k") in ("copy", "move") and not rv["op"]["place"]["proj"]:
            cur = rv["op"]["place"]["local"]
            continue
        return None
    return None


def r_stack_end(ctx):
    rep = RuleReport("R-STACK-END", "every ProcessingTag that reaches the open-master stack (pushed, or collected into it by the function that seeds the "
                     "implied ancestors) carries the Master::End form of its tag (entries are emitted verbatim when the master closes), and "
                     "every function that adds to the stack builds its entries that way")
    prog = ctx.prog
    fns = [b for b in iter_bodies(prog) if b.kind != "closure"]
    producers = 0
    for f in fns:
        bodies = [f] + prog.closures_of(f.path)
        assigns = any(st["k"] == "assign" and st["place"]["proj"] and st["place"]["proj"][-1].get("name") == "tag_stack" for bd in bodies for _, _, st in bd.statements())
        adders = _stack_adders(f)
        if not assigns and not adders:
            continue
        here = 0
        for b in bodies:
            for bb, i, st in b.statements():
                rv = st["rv"] if st["k"] == "assign" else None
                if rv is None or rv.get("agg") != "adt" or not strip_generics(rv["path"]).endswith("ProcessingTag"):
                    continue
                # is this aggregate a stack entry?  (a) built in a closure of a function that assigns the stack (collect), or
                # (b) its destination is moved into one of the adding calls of this function
                is_entry = b.kind == "closure" and assigns
                if not is_entry and b is f:
                    d = st["place"]["local"]
                    for cb, t in adders:
                        for a in t["args"][1:]:
                            if a.get("k") in ("copy", "move") and (a["place"]["local"] == d or "local:%d" % d in _moved_from(b, a["place"]["local"])):
                                is_entry = True
                if not is_entry:
                    continue
                here += 1
                tg = rv["ops"][rv["fields"].index("tag")]
                src = local_sources(b, tg["place"]["local"]) if tg.get("k") in ("copy", "move") else set()
                calls = [(cb, t) for cb, t, c in b.calls() if c is not None and strip_generics(c["path"]).endswith("EbmlSpecification::get_master_tag")]
                dom = b.dominators()
                feeding = [(cb, t) for cb, t in calls if cb in dom.get(bb, ())]
                variants = {_master_variant_of_arg(b, t["args"][1]) for cb, t in feeding}
                rep.instance("%s: stack entry tag from get_master_tag(.., %s)" % (b.key, sorted(map(str, variants))))
                rep.oblige(any("get_master_tag" in x for x in src) and variants == {"End"}, "STACK-END|%s" % f.name, b.span,
                           "%s stores a stack entry whose tag is built with Master::%s (must be End)" % (b.key, sorted(map(str, variants))))
        producers += here
        rep.oblige(here >= 1, "STACK-END|writers|%s" % f.name, f.span, "%s adds to tag_stack entries that are not built there from get_master_tag(.., Master::End)" % f.key)
    if producers < 2:
        raise AnchorLost("R-STACK-END: expected at least 2 producers of stack entries (push on a Start, seeding of implied ancestors), found %d" % producers)
    return rep


def _moved_from(body, local, depth=4):
    """locals whose value is moved/copied (plain `use`) into `local`"""
    out = set()
    cur = local
    for _ in range(depth):
        d = _def_of(body, cur)
        if d is None or d["rv"]["k"] != "use" or d["rv"]["op"].get("k") not in ("copy", "move") or d["rv"]["op"]["place"]["proj"]:
            break
        cur = d["rv"]["op"]["place"]["local"]
        out.add("local:%d" % cur)
    return out


SHRINKERS = ("pop", "drain", "remove", "truncate", "clear", "split_off", "swap_remove", "retain", "pop_if", "dedup", "drain_filter", "extract_if")


def _stack_shrinks(body):
    out = []
    for cb, t, c in body.calls():
        if c is None or not t["args"]:
            continue
        nm = strip_generics(c["path"])
        if nm.startswith("std::vec::Vec::") and nm.split("::")[-1] in SHRINKERS:
            a0 = t["args"][0]
            if a0.get("k") in ("copy", "move") and "field:tag_stack" in local_sources(body, a0["place"]["local"]):
                # the receiver is the stack itself, not a local container that merely received what was taken from the stack
                root = _borrow_root(body, a0["place"]["local"])
                if root is not None and root[0] == "local":
                    continue
                out.append((cb, nm.split("::")[-1], t))
    return out


def _true_edges_from(body, pred_sources):
    """(bb, target) edges taken when a switch whose scrutinee derives from `pred_sources` is non-zero"""
    out = []
    for b in sorted(body.live_blocks()):
        t = body.blocks[b]["term"]
        if t["k"] != "switch" or t["discr"].get("k") not in ("copy", "move"):
            continue
        p = t["discr"]["place"]
        names = {"field:" + e["name"] for e in p["proj"] if e["k"] == "field" and e.get("name")}
        if not p["proj"]:
            names |= local_sources(body, p["local"])
        if names & pred_sources:
            zero = [tg for v, tg in t["targets"] if v == 0]
            for v, tg in t["targets"]:
                if v != 0:
                    out.append((b, tg))
            if zero:
                out.append((b, t["otherwise"]))
    return out


def _in_loop(body, bb):
    return any(bb in body.reachable_from(s) for s in body.successors(bb))


def _drain_reversed(body, drain_bb):
    """the drained items reach the queue through .rev()"""
    for cb, t, c in body.calls_to("std::iter::Extend::extend"):
        a = t["args"][1]
        src = local_sources(body, a["place"]["local"]) if a.get("k") in ("copy", "move") else set()
        if "call:std::vec::Vec::drain" in src and cb in body.reachable_from(drain_bb):
            return "call:std::iter::Iterator::rev" in src
    return False


def r_eof_flag(ctx):
    rep = RuleReport("R-EOF-FLAG/CLOSE-LOOP", "the open-master stack shrinks at three places only: exhausted known-size masters are drained from the first "
                     "exhausted one, innermost first, before the next header is read; unknown-size masters are popped in a loop, each pop selected by "
                     "is_ended_by on the incoming element; at end of input (read_tag_checked() == None) all remaining masters are closed innermost "
                     "first, only under emit_master_end_when_eof")
    prog = ctx.prog
    rn = find_one(prog, "TagIterator::read_next")
    dom = rn.dominators()
    # who shrinks the stack at all
    others = []
    for b in iter_bodies(prog):
        if b is rn:
            continue
        for cb, kind, t in _stack_shrinks(b):
            others.append("%s (%s)" % (b.key, kind))
    rep.oblige(not others, "CLOSE|who-shrinks", "src/tag_iterator.rs", "tag_stack is shrunk outside read_next: %s" % others)
    rc = rn.calls_to(ITER + "::read_tag_checked")
    if len(rc) != 1:
        raise AnchorLost("read_next does not call read_tag_checked exactly once")
    rcb = rc[0][0]
    nxt = rc[0][1]["target"]
    tt = rn.blocks[nxt]["term"]
    if tt["k"] != "switch":
        raise AnchorLost("read_next does not branch on read_tag_checked()'s result right after the call")
    none_t = next((tg for v, tg in tt["targets"] if v == 0), None)
    some_t = next((tg for v, tg in tt["targets"] if v == 1), None)
    if none_t is None:
        none_t = tt["otherwise"]
    if some_t is None:
        some_t = tt["otherwise"]
    none_e, some_e = (nxt, none_t), (nxt, some_t)
    flag_true = _true_edges_from(rn, {"field:emit_master_end_when_eof"})
    ended_true = _true_edges_from(rn, {"call:tag_iterator_util::ProcessingTag::is_ended_by"})
    rep.instance("switches: emit_master_end_when_eof true-edges %d, is_ended_by true-edges %d" % (len(flag_true), len(ended_true)))
    n_known = n_unknown = n_eof = 0
    for cb, kind, t in _stack_shrinks(rn):
        where = "read_next bb%d %s()" % (cb, kind)
        if cb not in rn.reachable_from(rcb) and rcb in rn.reachable_from(cb):   # before the next header is read: known-size closing
            n_known += 1
            rep.instance("known-size closing: %s" % where)
            SCAN = {"call:std::iter::Iterator::position", "call:std::iter::Iterator::enumerate", "call:std::iter::Iterator::next"}
            if kind == "drain":
                a1 = t["args"][1]
                rty = (a1.get("place") or {}).get("ty") or a1.get("ty") or {}
                ok = strip_generics(rty.get("path", "")) in ("std::ops::RangeFrom", "core::ops::RangeFrom")
                order = _drain_reversed(rn, cb)
            elif kind == "pop":
                # `while stack.len() > index { pop }`: everything from the first exhausted master to the top, innermost first by construction
                ok = False
                for b2 in sorted(rn.live_blocks()):
                    tt2 = rn.blocks[b2]["term"]
                    if tt2["k"] != "switch" or tt2["discr"].get("k") not in ("copy", "move") or tt2["discr"]["place"]["proj"]:
                        continue
                    src = local_sources(rn, tt2["discr"]["place"]["local"])
                    if "call:std::vec::Vec::len" in src and "field:tag_stack" in src and (src & SCAN):
                        # the pop must sit inside the loop this comparison controls
                        if cb in rn.reachable_from(b2) and b2 in rn.reachable_from(cb):
                            ok = True
                order = ok
            else:
                ok = order = False
            rep.oblige(ok, "CLOSE|known|range", rn.span, "%s: exhausted known-size masters are not closed from the first exhausted one to the top of the stack" % where)
            rep.oblige(order, "CLOSE|known|order", rn.span, "%s: exhausted known-size masters are not queued innermost first" % where)
        elif rn.edge_dominates(some_e, cb):
            n_unknown += 1
            rep.instance("unknown-size closing: %s" % where)
            rep.oblige(kind == "pop", "CLOSE|unknown|pop", rn.span, "%s: unknown-size masters are not closed one at a time from the top" % where)
            rep.oblige(_in_loop(rn, cb), "CLOSE|unknown|loop", rn.span,
                       "%s: only one unknown-size master can be closed per incoming element (the closing pop is not in a loop)" % where)
            decided = any(rn.edge_dominates(e, cb) for e in ended_true)
            if not decided:
                # deciding pass + acting pass: a scan of the stack whose predicate asks is_ended_by() yields the depth to keep, and the pop
                # loop runs while the stack is deeper than that
                scan_asks = any(c2 is not None and strip_generics(c2["path"]).split("::")[-1] == "is_ended_by"
                                for cl in prog.closures_of(rn.path) for _, _, c2 in cl.calls())
                if scan_asks:
                    SCANS = {"call:std::iter::Iterator::rposition", "call:std::iter::Iterator::position", "call:std::iter::Iterator::take_while",
                             "call:std::iter::Iterator::skip_while"}
                    for b2 in sorted(rn.live_blocks()):
                        tt2 = rn.blocks[b2]["term"]
                        if tt2["k"] != "switch" or tt2["discr"].get("k") not in ("copy", "move") or tt2["discr"]["place"]["proj"]:
                            continue
                        src = local_sources(rn, tt2["discr"]["place"]["local"])
                        if "call:std::vec::Vec::len" in src and "field:tag_stack" in src and (src & SCANS):
                            if cb in rn.reachable_from(b2) and b2 in rn.reachable_from(cb):
                                decided = True
            rep.oblige(decided, "CLOSE|unknown|decided-by-is_ended_by", rn.span,
                       "%s: the closing pop is not selected by is_ended_by() on the incoming element" % where)
        elif rn.edge_dominates(none_e, cb):
            n_eof += 1
            rep.instance("end-of-input closing: %s" % where)
            rep.oblige(any(rn.edge_dominates(e, cb) for e in flag_true), "CLOSE|eof|flag", rn.span,
                       "%s: open masters are closed at end of input without emit_master_end_when_eof being set" % where)
            if kind == "pop":
                rep.oblige(_in_loop(rn, cb), "CLOSE|eof|all", rn.span, "%s: only the innermost open master is closed at end of input" % where)
            elif kind == "drain":
                a1 = t["args"][1]
                rty = (a1.get("place") or {}).get("ty") or a1.get("ty") or {}
                rep.oblige(strip_generics(rty.get("path", "")).endswith("ops::RangeFull"), "CLOSE|eof|all", rn.span, "%s: not every open master is closed at end of input" % where)
                rep.oblige(_drain_reversed(rn, cb), "CLOSE|eof|order", rn.span, "%s: at end of input the Ends are queued outermost first (drain(..) without rev())" % where)
            else:
                rep.oblige(False, "CLOSE|eof|form", rn.span, "%s: masters are discarded at end of input without an End being queued" % where)
        else:
            rep.oblige(False, "CLOSE|unexpected-site", rn.span, "%s: the open-master stack shrinks on a path that is neither known-size exhaustion, is_ended_by closing, nor end of input" % where)
    rep.oblige(n_known >= 1, "CLOSE|known|present", rn.span, "exhausted known-size masters are no longer closed before the next header is read")
    rep.oblige(n_unknown >= 1, "CLOSE|unknown|present", rn.span, "unknown-size masters are no longer closed by the incoming element")
    rep.oblige(n_eof >= 1, "CLOSE|eof|present", rn.span, "open masters are no longer closed at end of input")
    # the known-size exhaustion test: position(|tag| Known(size) && current_offset() >= data_start + size)
    scans = rn.calls_to("std::iter::Iterator::position") + rn.calls_to("std::iter::Iterator::enumerate")
    good = [x for x in scans if x[1]["args"][0].get("k") in ("copy", "move") and
            {"field:tag_stack", "call:core::slice::iter"} <= local_sources(rn, x[1]["args"][0]["place"]["local"])]
    rep.instance("known-size exhaustion scans over the whole stack from the bottom: %d" % len(good))
    rep.oblige(len(good) >= 1, "CLOSE|known|scan", rn.span, "the first exhausted known-size master is not searched from the bottom of the whole tag_stack (position()/enumerate() over tag_stack.iter())")
    return rep


FILLERS = ("push", "push_back", "push_front", "extend", "append", "insert", "extend_from_slice", "extend_one")
CONTAINERS = ("std::vec::Vec", "std::collections::VecDeque", "std::collections::vec_deque::VecDeque", "alloc::vec::Vec", "alloc::collections::vec_deque::VecDeque")


def _borrow_root(b, local, depth=6):
    """what a reference local points at: ('field', name) for a field of self, ('local', n) for a whole local, else None"""
    cur = local
    for _ in range(depth):
        d = _def_of(b, cur)
        if d is None:
            return None
        rv = d["rv"]
        if rv["k"] in ("ref", "rawptr"):
            pl = rv["place"]
            fields = [e.get("name") for e in pl["proj"] if e["k"] == "field" and e.get("name")]
            if fields:
                return ("field", fields[-1])
            if not [e for e in pl["proj"] if e["k"] != "deref"]:
                if pl["proj"]:       # reborrow through a reference local
                    cur = pl["local"]
                    continue
                return ("local", pl["local"])
            return None
        if rv["k"] == "use" and rv["op"].get("k") in ("copy", "move") and not rv["op"]["place"]["proj"]:
            cur = rv["op"]["place"]["local"]
            continue
        return None
    return None


def r_close_emits(ctx):
    """Pairing rule: a master removed from the open-master stack is queued as an End on every path (C06 'every open master receives its End',
    C12 'the Ends of the masters completely contained in the prefix precede the end-of-file error')."""
    rep = RuleReport("R-CLOSE-EMITS", "every value removed from tag_stack in read_next flows into the emission queue: directly (the removal's result "
                     "reaches a push/extend of emission_queue), or through a local staging container that is handed to the queue on every path from "
                     "the point where it received masters to the return of read_next (error paths included)")
    prog = ctx.prog
    rn = find_one(prog, "TagIterator::read_next")
    sites = _stack_shrinks(rn)
    if not sites:
        raise AnchorLost("read_next no longer shrinks tag_stack")
    calls = list(rn.calls())
    returns = {b for b in rn.live_blocks() if rn.blocks[b]["term"]["k"] == "return"}

    def stmt_reads(st):
        return {pl["local"] for kind, pl in _places_in_stmt(st)[1:]}

    def closure(seed_locals):
        """forward value flow (flow-insensitive): assignments and call results that mention a tainted local; filling a local container taints it.
        Returns (tainted locals, queue sink blocks, {container local: fill blocks})"""
        T = set(seed_locals)
        sinks = set()
        fills = {}
        changed = True
        while changed:
            changed = False
            for bb, i, st in rn.statements():
                if st["k"] != "assign":
                    continue
                if stmt_reads(st) & T and st["place"]["local"] not in T:
                    T.add(st["place"]["local"])
                    changed = True
            for bb, t, c in calls:
                args = [a["place"]["local"] for a in t["args"] if a.get("k") in ("copy", "move")]
                if not (set(args) & T):
                    continue
                nm = strip_generics(c["path"]) if c is not None else ""
                short = nm.split("::")[-1]
                if short in FILLERS and len(args) >= 2 and (set(args[1:]) & T):
                    root = _borrow_root(rn, args[0])
                    if root == ("field", "emission_queue"):
                        sinks.add(bb)
                    elif root is not None and root[0] == "local":
                        if bb not in fills.setdefault(root[1], set()):
                            fills[root[1]].add(bb)
                            changed = True
                        if root[1] not in T:
                            T.add(root[1])
                            changed = True
                d = t["dest"]["local"]
                if d not in T:
                    T.add(d)
                    changed = True
                # a collected container
                dty = rn.local_ty(d) or {}
                if strip_generics(dty.get("path", "")) in CONTAINERS and not t["dest"]["proj"]:
                    if bb not in fills.setdefault(d, set()):
                        fills[d].add(bb)
                        changed = True
        return T, sinks, fills

    for cb, kind, t in sites:
        where = "read_next bb%d %s()" % (cb, kind)
        T, sinks, fills = closure({t["dest"]["local"]})
        # staging containers: locals that were filled with removed masters (moves of a container into another local keep the fill blocks)
        staged = {}
        for L, fb in fills.items():
            staged[L] = set(fb)
        rep.instance("%s: reaches the queue in blocks %s%s" % (where, sorted(sinks), (", staged in locals %s" % sorted(staged)) if staged else ""))
        rep.oblige(bool(sinks), "CLOSE-EMITS|%s|queued" % kind, rn.span, "%s: the masters removed from tag_stack never reach emission_queue" % where)
        for L, fb in sorted(staged.items()):
            TL, sinksL, _ = closure({L})
            # plain moves of the container (`let v2 = v`) are the same container
            lost = []
            for f in sorted(fb):
                if rn.reachable_from(f, stop=frozenset(sinksL)) & returns:
                    lost.append(f)
            rep.oblige(not lost, "CLOSE-EMITS|%s|staged|every-path" % kind, rn.span,
                       "%s: the removed masters are staged in a local container (_%d) that is not handed to emission_queue on some path from "
                       "bb%s to the return of read_next (their End items are lost there)" % (where, L, lost))
    rep.require_floor(3, "closing sites")
    return rep


NARROWING = ("take", "skip", "rev_take", "last", "step_by", "take_while", "skip_while", "nth", "nth_back", "next_back", "map_while")


def r_overrun_all(ctx):
    rep = RuleReport("R-OVERRUN-ALL", "the overrun test draws the ancestors it compares against from an iterator over the whole open-master stack "
                     "(no first/last/get/index, no narrowing adaptor), and header validation calls it")
    prog = ctx.prog
    b = find_one(prog, "TagIterator::is_invalid_tag_size")
    scans = []
    narrowing = []
    direct = []
    for cb, t, c in b.calls():
        if c is None or not t["args"]:
            continue
        nm = strip_generics(c["path"])
        a0 = t["args"][0]
        src = local_sources(b, a0["place"]["local"]) if a0.get("k") in ("copy", "move") else set()
        if nm in ("core::slice::iter", "std::iter::IntoIterator::into_iter") and "field:tag_stack" in src:
            scans.append(cb)
        last = nm.split("::")[-1]
        if nm.startswith("std::iter::Iterator::") and last in NARROWING:
            narrowing.append(last)
        if nm.startswith("core::slice::") and last in ("last", "first", "get", "split_last", "split_first", "get_unchecked") and "field:tag_stack" in src:
            direct.append(last)
        if nm.startswith("std::ops::Index::index") and "field:tag_stack" in src:
            direct.append("index")
    rep.instance("whole-stack iterations in is_invalid_tag_size: %d (narrowing adaptors: %s; direct accesses: %s)" % (len(scans), narrowing, direct))
    rep.oblige(len(scans) >= 1, "OVERRUN-ALL|scan", b.span,
               "is_invalid_tag_size does not iterate over the whole open-master stack%s" % (" (it looks only at %s)" % direct if direct else ""))
    rep.oblige(not narrowing, "OVERRUN-ALL|all-ancestors", b.span, "the scan is narrowed by %s: not every ancestor is checked" % narrowing)
    pv = find_one(prog, "TagIterator::peek_valid_tag_header")
    rep.oblige(bool(pv.calls_to(ITER + "::is_invalid_tag_size")), "OVERRUN-ALL|called", pv.span, "header validation does not call is_invalid_tag_size")
    return rep


def _root_local(b, op, depth=4):
    """the user-visible local an operand is a plain copy of"""
    if op.get("k") not in ("copy", "move") or op["place"]["proj"]:
        return None
    l = op["place"]["local"]
    for _ in range(depth):
        d = _def_of(b, l)
        if d is not None and d["rv"]["k"] == "use" and d["rv"]["op"].get("k") in ("copy", "move") and not d["rv"]["op"]["place"]["proj"]:
            l = d["rv"]["op"]["place"]["local"]
        else:
            break
    return l


def _cmp_in_block(b, blk):
    cmp_ = None
    for st in b.blocks[blk]["stmts"]:
        if st["k"] == "assign" and st["rv"]["k"] == "binop" and st["rv"]["op"] in ("Ge", "Lt", "Gt", "Le", "Eq", "Ne"):
            cmp_ = st
    return cmp_


def r_buffer_progress(ctx):
    rep = RuleReport("L-BUFFER-PROGRESS", "in buffer_master the queue is refilled (read_next) only when the search counter has reached the queue length, "
                     "and right after the refill the same counter is compared with the new length: when nothing new was queued the function "
                     "reports EOF and returns — the search loop cannot spin")
    prog = ctx.prog
    b = find_one(prog, "TagIterator::buffer_master")
    rn = b.calls_to(ITER + "::read_next")
    rep.instance("refill sites: %d" % len(rn))
    ok = rep.oblige(len(rn) == 1, "BUFFER-PROGRESS|refill", b.span, "buffer_master does not refill the queue through read_next exactly once per round")
    if not ok:
        return rep
    cb = rn[0][0]

    def is_len(op):
        # the operand is (a plain copy of) the result of emission_queue.len()
        l = _root_local(b, op)
        if l is None:
            return False
        for cbk, t, c in b.calls():
            if c is not None and strip_generics(c["path"]) == "std::collections::VecDeque::len" and t["dest"]["local"] == l and not t["dest"]["proj"]:
                a0 = t["args"][0]
                return a0.get("k") in ("copy", "move") and "field:emission_queue" in local_sources(b, a0["place"]["local"])
        return False
    # follow straight-line code after the refill to the first switch
    blk = b.blocks[cb]["term"]["target"]
    found = None
    for _ in range(4):
        tt = b.blocks[blk]["term"]
        if tt["k"] == "switch":
            found = (blk, tt)
            break
        if tt["k"] in ("goto", "call"):
            blk = tt["target"]
            continue
        break
    ok = False
    why = "no comparison of the search counter with the queue length follows the refill"
    if found is not None:
        blk, tt = found
        cmp_ = _cmp_in_block(b, blk)
        if cmp_ is not None:
            A, B = cmp_["rv"]["a"], cmp_["rv"]["b"]
            op = cmp_["rv"]["op"]
            if is_len(B) and not is_len(A):
                counter, form = _root_local(b, A), ("counter", "len")
            elif is_len(A) and not is_len(B):
                counter, form = _root_local(b, B), ("len", "counter")
            else:
                counter, form = None, None
            nm = lambda l: (b.local_name(l) or "_%d" % l) if l is not None else "?"
            why = "after the refill the code tests `%s %s %s`, which does not compare a search counter with the new queue length" % (
                "len" if is_len(A) else nm(_root_local(b, A)), op, "len" if is_len(B) else nm(_root_local(b, B)))
            # the counter must be the one whose reaching the length triggered the refill
            guard_ok = False
            if counter is not None:
                for g in sorted(b.live_blocks()):
                    gt = b.blocks[g]["term"]
                    if gt["k"] != "switch":
                        continue
                    gc = _cmp_in_block(b, g)
                    if gc is None:
                        continue
                    ga, gb_ = gc["rv"]["a"], gc["rv"]["b"]
                    roots = {_root_local(b, ga), _root_local(b, gb_)}
                    if counter in roots and (is_len(ga) or is_len(gb_)) and any(b.edge_dominates((g, tg), cb) for _, tg in list(gt["targets"]) + [(None, gt["otherwise"])]):
                        guard_ok = True
                if not guard_ok:
                    why = "the refill is not guarded by a comparison of the same counter (%s) with the queue length" % nm(counter)
            exit_when = {("counter", "len"): {"Ge": 1, "Lt": 0, "Eq": 1, "Ne": 0}, ("len", "counter"): {"Le": 1, "Gt": 0, "Eq": 1, "Ne": 0}}.get(form, {}).get(op)
            if guard_ok and exit_when is None:
                why = "after the refill the code tests `%s %s %s`, which is not taken exactly when nothing new was queued (counter >= length)" % (form[0], op, form[1])
            if guard_ok and exit_when is not None:
                tgt = next((tg for v, tg in tt["targets"] if v == 0), None) if exit_when == 0 else \
                    (tt["otherwise"] if all(v == 0 for v, _ in tt["targets"]) else next((tg for v, tg in tt["targets"] if v == 1), None))
                why = "the 'nothing new' outcome does not leave the search loop"
                if tgt is not None:
                    reach = b.reachable_from(tgt)
                    if cb not in reach and any(b.blocks[r]["term"]["k"] == "return" for r in reach):
                        ok = True
    rep.oblige(ok, "BUFFER-PROGRESS|gives-up", b.span, "buffer_master: %s" % why)
    return rep




def bo_variants(prog):
    """how the stream offset of the buffer start is represented: Option<usize> (analysed once per variant) or a plain usize"""
    from rules import iterator as it
    info = prog.adts.get(it.ITER)
    f = next((f for f in info["variants"][0]["fields"] if f["name"] == "buffer_offset"), None) if info else None
    if f is None:
        raise AnchorLost("field buffer_offset not found")
    ts = (f["ty"] or {}).get("s", "")
    if ts.startswith("std::option::Option"):
        return ("None", "Some")
    if f["ty"].get("k") == "uint":
        return ("plain",)
    raise AnchorLost("buffer_offset is neither Option<usize> nor usize")

# ----------------------------------------------------------------------------------------------------
# R-OFFSET-BOOK: abstract interpretation of the buffer bookkeeping
# ----------------------------------------------------------------------------------------------------
def _book_run(prog, entry_variant):
    """analyse ensure_data_read from an arbitrary state satisfying pos<=filled<=cap with buffer_offset = None / Some(o).
    Ghosts: off0 = cursor at entry, end0/recv = stream offset of the end of the buffered data, shift = how far the data moved left."""
    import absrun
    from absint import Infeasible
    from absval import Int, Enum
    from absint import get_at, set_at
    from lin import LinForm
    from rules import iterator as it
    ix = it.field_index(prog)
    body = find_one(prog, "TagIterator::ensure_data_read")
    G_OFF0, G_RECV, G_SHIFT, G_BO0 = (("H", "ghost", "off0"), ()), (("H", "ghost", "recv"), ()), (("H", "ghost", "shift"), ()), (("H", "ghost", "bo0"), ())
    eng = absrun.make_engine(prog, post_assume={ITER + "::current_offset": it._pa_offset}, ghost_received=G_RECV, eof_partition=False)
    out = {"checks": [], "entry": entry_variant}
    selfcell = {}

    def V(f):
        return LinForm.var((selfcell["c"], (ix[f],)))

    def BO(st):
        if entry_variant == "plain":
            return LinForm.var((selfcell["c"], (ix["buffer_offset"],)))
        return LinForm.var((selfcell["c"], (ix["buffer_offset"], ("v", 1), 0)))

    def setup(eng_, st, frame):
        r = st.cells[frame.cell(1)]
        selfcell["c"] = r.cell
        it.constrain_self(eng_, st, r.cell, ix)
        v = st.cells[r.cell]
        bo = get_at(v, (ix["buffer_offset"],))
        if entry_variant == "None":
            v = set_at(v, (ix["buffer_offset"],), Enum(bo.path, {0: ()}))
        elif entry_variant == "Some":
            v = set_at(v, (ix["buffer_offset"],), Enum(bo.path, {1: bo.variants[1]}))
        st.cells[r.cell] = v
        big = Int(0, 4 * it.OFF, 64, False)
        for g in (G_OFF0, G_RECV, G_BO0):
            st.cells[g[0]] = big
        st.cells[G_SHIFT[0]] = Int.const(0, 64, False)
        pos, filled = LinForm.var((r.cell, (ix["internal_buffer_position"],))), LinForm.var((r.cell, (ix["buffered_byte_length"],)))
        if entry_variant == "None":
            st.cells[G_BO0[0]] = Int.const(0, 64, False)
        else:
            st.add_eq(LinForm.var(G_BO0) - BO(st))
        st.add_eq(LinForm.var(G_OFF0) - LinForm.var(G_BO0) - pos)
        st.add_eq(LinForm.var(G_RECV) - LinForm.var(G_BO0) - filled)

    def on_copy(call=None, arr_loc=None, range=None, dest=None, dest_lin=None, **kw):
        st = call.st
        if not any(x[0] == "moved" for x in st.tag):
            st.tag = st.tag + (("moved", 1),)        # paths that compacted the buffer are kept apart from those that did not
        rec = {"what": "copy_within moves exactly the unread bytes [position, filled) to the front", "where": str(call.span), "ok": False}
        out["checks"].append(rec)
        if range is None:
            rec["why"] = "unrecognised range"
            st.kill_vars([G_SHIFT])
            return
        s, sl, e, el = range
        pos, filled = V("internal_buffer_position"), V("buffered_byte_length")
        if sl is None:
            sl = LinForm.constant(s.lo) if s.is_const() else None
        if el is None:
            el = LinForm.constant(e.lo) if e.is_const() else None
        if dest_lin is None and dest is not None and dest.is_const():
            dest_lin = LinForm.constant(dest.lo)
        if sl is None or el is None or dest_lin is None:
            rec["why"] = "range or destination not expressible"
            st.kill_vars([G_SHIFT])
            return
        # everything still unread is moved: the source range ends at `filled` and starts no later than the cursor
        ok = st.entails_eq(el - filled) and st.entails_le(sl - pos) and st.entails_eq(dest_lin)
        rec["ok"] = ok
        if not ok:
            rec["why"] = "source range is not [<=position, filled) or destination is not 0"
        # shift := shift + (start - dest)
        d = sl - dest_lin
        leaf = st.leaf(G_SHIFT)
        if leaf is not None and leaf.is_const():
            k = leaf.lo
            st.cells[G_SHIFT[0]] = Int(0, 4 * it.OFF, 64, False)
            st.add_eq(LinForm.var(G_SHIFT) - d - k)
        else:
            from lin import Cons
            repl = LinForm.var(G_SHIFT) - d
            nc = Cons()
            for x in st.cons.le:
                nc.add_le(x.subst(G_SHIFT, repl) if G_SHIFT in x.terms else x)
            for x in st.cons.eq:
                nc.add_eq(x.subst(G_SHIFT, repl) if G_SHIFT in x.terms else x)
            st.cons = nc
            for gk, fs in list(st.guards.items()):
                st.guards[gk] = type(fs)((f[0], f[1].subst(G_SHIFT, repl)) + tuple(f[2:]) if f[0] in ("le", "eq") and G_SHIFT in f[1].terms else f for f in fs)

    def on_read(call=None, buf_len=None, buf_len_lin=None, **kw):
        st = call.st
        rec = {"what": "bytes from the source are stored right after the buffered data (the slice handed to read() starts at `filled`)",
               "where": str(call.span), "ok": False}
        out["checks"].append(rec)
        if buf_len_lin is None:
            rec["why"] = "length of the slice handed to read() is not tracked"
            return
        cap = LinForm.var((selfcell["c"], (ix["buffer"], "len")))
        rec["ok"] = st.entails_eq(buf_len_lin - cap + V("buffered_byte_length"))
        if not rec["ok"]:
            rec["why"] = "slice length is not capacity - filled"

    eng.on("copy_within", on_copy)
    eng.on("read", on_read)
    import absint as _absint
    _forms, (pv, fv, cv) = it.inv_forms(ix)
    _absint.INVARIANT_VARS[:] = [pv, fv, cv]

    def setup2(eng_, st, frame):
        setup(eng_, st, frame)
        # the three bookkeeping equalities, offered to every join (they are kept only where both sides entail them)
        pos, filled = V("internal_buffer_position"), V("buffered_byte_length")
        if True:
            _absint.EXTRA_TEMPLATES[:] = [BO(st) + pos - LinForm.var(G_OFF0), BO(st) - LinForm.var(G_BO0) - LinForm.var(G_SHIFT), BO(st) + filled - LinForm.var(G_RECV)]
    try:
        exits, frame = absrun.analyze(eng, body, None, setup2)
    finally:
        _absint.INVARIANT_VARS[:] = []
        _absint.EXTRA_TEMPLATES[:] = []
    n_exit = 0
    for e in exits:
        v = e.cells[selfcell["c"]]
        bo = get_at(v, (ix["buffer_offset"],))
        for idx in (sorted(bo.variants) if entry_variant != "plain" else [1]):
            st = e.copy()
            try:
                if entry_variant != "plain" and len(bo.variants) > 1:
                    st.cells[selfcell["c"]] = set_at(v, (ix["buffer_offset"],), Enum(bo.path, {idx: bo.variants[idx]}))
                    st.apply_guard((selfcell["c"], (ix["buffer_offset"],)), ("v", idx))
            except Infeasible:
                continue
            n_exit += 1
            cur_bo = BO(st) if idx == 1 else LinForm.constant(0)
            pos, filled = V("internal_buffer_position"), V("buffered_byte_length")
            shape = sorted(it._shape(e.cells.get(frame.cell(0)), eng))
            for what, form in (("the cursor's stream offset (buffer_offset + position) is unchanged", cur_bo + pos - LinForm.var(G_OFF0)),
                               ("buffer_offset grows by exactly the distance the data was moved", cur_bo - LinForm.var(G_BO0) - LinForm.var(G_SHIFT)),
                               ("buffer_offset + filled = stream offset of the last byte received", cur_bo + filled - LinForm.var(G_RECV))):
                ok = st.entails_eq(form)
                out["checks"].append({"what": what, "where": "exit of ensure_data_read %s, buffer_offset=%s" % (shape, "plain" if entry_variant == "plain" else ("Some" if idx else "None")), "ok": ok,
                                      "why": None if ok else "not entailed at this exit"})
    out["exits"] = n_exit
    out["steps"] = eng.steps
    out["assumptions"] = sorted(eng.assumptions)
    out["panics"] = [o.desc for o in eng.obligations.values() if not o.ok]
    return out


def r_offset_book(ctx):
    rep = RuleReport("R-OFFSET-BOOK", "abstract interpretation of ensure_data_read (the only function that moves buffered bytes or rewrites buffer_offset) "
                     "with ghost variables: buffer[i] keeps holding stream byte buffer_offset+i — the data is moved left by exactly what buffer_offset "
                     "gains, new bytes are appended at `filled`, and the cursor's stream offset does not change")
    prog = ctx.prog
    # premise: nobody else writes the bookkeeping fields or moves buffer contents
    from rules.common import only_called_under
    writers = {}
    movers = set()

    def confined(b, roots):
        # a private helper reachable only through the named functions counts as part of them
        return only_called_under(prog, b, roots)
    for b in iter_bodies(prog):
        root = prog.function_root(b)
        rn = root.name if root is not None else b.name
        for fld in ("buffer_offset", "buffered_byte_length", "internal_buffer_position"):
            for bb, i, st in b.statements():
                if st["k"] == "assign" and any(e["k"] == "field" and e.get("name") == fld for e in st["place"]["proj"]):
                    allowed = {"buffer_offset": ("ensure_data_read", "with_capacity", "new"),
                               "buffered_byte_length": ("ensure_data_read", "private_read", "with_capacity", "new")}.get(fld)
                    if allowed is not None and confined(b, allowed):
                        rn2 = "ensure_data_read" if rn not in allowed else rn
                        writers.setdefault(fld, set()).add(rn2)
                    else:
                        writers.setdefault(fld, set()).add(rn)
        for cb, t, c in b.calls():
            if c is not None and strip_generics(c["path"]) in ("core::slice::copy_within", "core::slice::rotate_left", "core::slice::rotate_right", "core::slice::swap",
                                                                "core::slice::copy_from_slice", "core::slice::reverse"):
                movers.add("ensure_data_read" if confined(b, ("ensure_data_read",)) else rn)
    rep.instance("writers: %s; data movers: %s" % ({k: sorted(v) for k, v in sorted(writers.items())}, sorted(movers)))
    rep.oblige(writers.get("buffer_offset", set()) <= {"ensure_data_read", "with_capacity"}, "BOOK|writers|buffer_offset", "src/tag_iterator.rs",
               "buffer_offset is written outside ensure_data_read: %s" % sorted(writers.get("buffer_offset", ())))
    rep.oblige(writers.get("buffered_byte_length", set()) <= {"ensure_data_read", "private_read", "with_capacity"}, "BOOK|writers|filled", "src/tag_iterator.rs",
               "buffered_byte_length is written outside ensure_data_read/private_read: %s" % sorted(writers.get("buffered_byte_length", ())))
    rep.oblige(movers <= {"ensure_data_read"}, "BOOK|movers", "src/tag_iterator.rs", "buffer contents are moved outside ensure_data_read: %s" % sorted(movers))
    # replacing the buffer (growth) must carry every byte over at its index: the new contents derive from the whole old buffer
    n_repl = 0
    for b in iter_bodies(prog):
        root = prog.function_root(b)
        rn = root.name if root is not None else b.name
        if rn in ("with_capacity", "new"):
            continue
        ws = [st for bb, i, st in b.statements() if st["k"] == "assign" and st["place"]["proj"] and st["place"]["proj"][-1].get("name") == "buffer"]
        if not ws:
            continue
        n_repl += 1
        partial = []
        for cb, t, c in b.calls():
            if c is None or len(t["args"]) < 2:
                continue
            if strip_generics(c["path"]) in ("std::ops::Index::index", "std::ops::IndexMut::index_mut"):
                a0, a1 = t["args"][0], t["args"][1]
                src = local_sources(b, a0["place"]["local"]) if a0.get("k") in ("copy", "move") else set()
                for e in (a0.get("place") or {}).get("proj", []):
                    if e["k"] == "field" and e.get("name"):
                        src.add("field:" + e["name"])
                rty = (a1.get("place") or {}).get("ty") or a1.get("ty") or {}
                if "field:buffer" in src and rty.get("k") == "adt" and not strip_generics(rty.get("path", "")).endswith("RangeFull"):
                    partial.append(strip_generics(rty.get("path", "")).split("::")[-1])
        carried = any("field:buffer" in local_sources(b, st["rv"]["op"]["place"]["local"]) for st in ws
                      if st["rv"]["k"] == "use" and st["rv"]["op"].get("k") in ("copy", "move"))
        if not carried:
            # the old contents may also reach the new allocation through a &mut call (extend_from_slice(&self.buffer), copy_from_slice, ..)
            COPIERS = ("std::vec::Vec::extend_from_slice", "std::iter::Extend::extend", "core::slice::copy_from_slice", "core::slice::clone_from_slice",
                       "std::convert::From::from", "std::slice::to_vec", "core::slice::to_vec", "std::clone::Clone::clone", "std::borrow::ToOwned::to_owned")
            for cb, t, c in b.calls():
                if c is None or strip_generics(c["path"]) not in COPIERS:
                    continue
                for a in t["args"]:
                    if a.get("k") in ("copy", "move"):
                        src = local_sources(b, a["place"]["local"])
                        for e in a["place"]["proj"]:
                            if e["k"] == "field" and e.get("name"):
                                src.add("field:" + e["name"])
                        if "field:buffer" in src:
                            carried = True
        rep.instance("%s replaces the buffer: contents carried over=%s, partial slices of the old buffer=%s" % (rn, carried, partial))
        rep.oblige(carried and not partial, "BOOK|realloc|%s" % rn, b.span,
                   "%s replaces the buffer without carrying every byte over at its index (%s)" % (rn, "copies only a %s of it" % "/".join(partial) if partial else "old contents not copied"))
    if n_repl < 1:
        raise AnchorLost("R-OFFSET-BOOK: no function replacing the buffer found (ensure_capacity expected)")
    # position is otherwise only advanced (cursor moves forward over bytes it owns): covered by INV (R-PANIC-ITER) and RECOVER-MONO
    seen = {}
    for variant in bo_variants(prog):
        res = _book_run(prog, variant)
        rep.analysed.append("ensure_data_read[buffer_offset=%s] (%d steps, %d exits)" % (variant, res["steps"], res["exits"]))
        for a in res["assumptions"]:
            if a not in rep.assumed:
                rep.assumed.append(a)
        if res["exits"] < 1:
            raise AnchorLost("R-OFFSET-BOOK: no exit of ensure_data_read analysed")
        for c in res["checks"]:
            k = (c["what"], c["where"].split(" [")[0] if False else c["where"])
            prev = seen.get(k)
            seen[k] = (prev[0] and c["ok"], c.get("why") or (prev[1] if prev else None)) if prev else (c["ok"], c.get("why"))
    n_cp = sum(1 for (w, _) in seen if w.startswith("copy_within"))
    n_rd = sum(1 for (w, _) in seen if w.startswith("bytes from the source"))
    if n_cp < 1 or n_rd < 1:
        raise AnchorLost("R-OFFSET-BOOK: the compaction (%d) or the read (%d) was not reached" % (n_cp, n_rd))
    idx = {}
    for (what, where), (ok, why) in sorted(seen.items()):
        rep.instance("%s @ %s: %s" % (what, where, "proved" if ok else "NOT proved"))
        short = what.split(" (")[0]
        n = idx.get(short, 0)
        idx[short] = n + 1
        desc = where.split(" at ")[0] if "exit of" in where else "site"
        rep.oblige(ok, "BOOK|%s|%s" % (short, desc if "exit of" in where else "#%d" % n), where, "%s: %s" % (what, why))
    return rep


# ----------------------------------------------------------------------------------------------------
# R-TILE: abstract interpretation of read_tag — what the cursor advances by and what offsets are recorded
# ----------------------------------------------------------------------------------------------------
def _tile_run(prog, entry_variant, entry="read_tag"):
    import absrun
    import absint as _absint
    from absint import Infeasible, get_at, set_at
    from absval import Int, Enum, Struct, Arr
    from lin import LinForm
    from rules import iterator as it
    ix = it.field_index(prog)
    body = find_one(prog, "TagIterator::" + entry)
    pt = prog.adts.get("tag_iterator_util::ProcessingTag")
    if pt is None:
        raise AnchorLost("ProcessingTag not found")
    pf = {f["name"]: i for i, f in enumerate(pt["variants"][0]["fields"])}
    G = {n: (("H", "ghost", n), ()) for n in ("off0", "idlen", "szlen", "data0", "size", "ctmp", "vsize", "hsize")}
    from absval import ISIZE_MAX
    EDR, PTI = ITER + "::ensure_data_read", ITER + "::peek_tag_id"
    for need in (EDR, PTI, "tools::read_vint"):
        if need not in prog.bodies:
            raise AnchorLost("function %s not found" % need)

    def edr_effect(c, st):
        """contract of ensure_data_read proved by R-OFFSET-BOOK / R-PANIC-ITER: the buffer fields change arbitrarily within the object
        invariant, the cursor's stream offset does not.  -> list of successor states"""
        cu = cur(st)
        if cu is None:
            return []
        gset(st, "ctmp", cu)
        cell = sc["c"]
        outs = []
        bo = get_at(st.cells[cell], (ix["buffer_offset"],))
        plain = not isinstance(bo, Enum)
        variants = [1] if (plain or set(bo.variants) == {1}) else [0, 1]
        for k, idx in enumerate(variants):
            s2 = st if k == len(variants) - 1 else st.copy()
            try:
                for f in ("internal_buffer_position", "buffered_byte_length"):
                    s2.kill_loc(cell, (ix[f],))
                    s2.cells[cell] = set_at(s2.cells[cell], (ix[f],), Int(0, ISIZE_MAX, 64, False))
                s2.kill_loc(cell, (ix["buffer"],))
                bufv = get_at(s2.cells[cell], (ix["buffer"],))
                if isinstance(bufv, Arr):
                    s2.cells[cell] = set_at(s2.cells[cell], (ix["buffer"],), Arr(Int(0, ISIZE_MAX, 64, False), Int.top(8, False), None, bufv.container))
                s2.kill_loc(cell, (ix["buffer_offset"],))
                if plain:
                    s2.cells[cell] = set_at(s2.cells[cell], (ix["buffer_offset"],), Int(0, it.OFF, 64, False))
                elif idx == 1:
                    s2.cells[cell] = set_at(s2.cells[cell], (ix["buffer_offset"],), Enum(bo.path, {1: (Int(0, it.OFF, 64, False),)}))
                else:
                    s2.cells[cell] = set_at(s2.cells[cell], (ix["buffer_offset"],), Enum(bo.path, {0: ()}))
                for f in it.inv_forms(ix, cell)[0]:
                    s2.add_le(f)
                s2.add_eq(cur(s2) - LinForm.var(G["ctmp"]))
                if idx == 1 and len(variants) == 2 and not any(x[0] == "moved" for x in s2.tag):
                    s2.tag = s2.tag + (("moved", 1),)
                outs.append(s2)
            except Infeasible:
                pass
        return outs

    def summary_edr(c, body_):
        for s2 in edr_effect(c, c.st):
            c.ret(c.I.top_of(c.ret_ty(), s2, ("ret", c.frame.uid, c.bb)), st=s2)

    def summary_pti(c, body_):
        for s2 in edr_effect(c, c.st):
            v = c.I.top_of(c.ret_ty(), s2, ("ret", c.frame.uid, c.bb))
            if isinstance(v, Enum) and 0 in v.variants:
                t = v.variants[0][0]
                if isinstance(t, Struct) and len(t.fields) == 2:
                    vv = dict(v.variants)
                    vv[0] = (Struct(t.path, [t.fields[0], Int(1, 8, 64, False)]),)
                    v = Enum(v.path, vv)
            c.ret(v, st=s2)
            dloc = c.I.resolve(s2, c.frame, c.term["dest"])
            if dloc is not None:
                gset(s2, "idlen", LinForm.var((dloc[0], dloc[1] + (("v", 0), 0, 1))))

    def model_read_vint(c):
        v, _ = c.arg(0)
        arr, loc = c.deref(v)
        where = "peek_valid_tag_header: slice handed to read_vint"
        if not isinstance(arr, Arr) or loc is None:
            check("the size is parsed from the bytes right after the id", where, False, "slice not tracked or id length unknown")
        else:
            ln = LinForm.var((loc[0], loc[1] + ("len",)))
            form = V("buffered_byte_length") - ln - V("internal_buffer_position") - LinForm.var(G["idlen"])
            check("the size is parsed from the bytes right after the id", where, c.st.entails_eq(form))
        r = c.I.top_of(c.ret_ty(), c.st, ("ret", c.frame.uid, c.bb))
        if isinstance(r, Enum) and 0 in r.variants and isinstance(r.variants[0][0], Enum) and 1 in r.variants[0][0].variants:
            inner = r.variants[0][0]
            t = inner.variants[1][0]
            if isinstance(t, Struct) and len(t.fields) == 2:
                iv = dict(inner.variants)
                iv[1] = (Struct(t.path, [t.fields[0], Int(1, 8, 64, False)]),)
                inner = Enum(inner.path, iv)
                rv_ = dict(r.variants)
                rv_[0] = (inner,)
                r = Enum(r.path, rv_)
        c.ret(r)
        dloc = c.I.resolve(c.st, c.frame, c.term["dest"])
        if dloc is not None:
            gset(c.st, "szlen", LinForm.var((dloc[0], dloc[1] + (("v", 0), 0, ("v", 1), 0, 1))))
            gset(c.st, "vsize", LinForm.var((dloc[0], dloc[1] + (("v", 0), 0, ("v", 1), 0, 0))))

    PVH = ITER + "::peek_valid_tag_header"
    summ = {EDR: summary_edr, PTI: summary_pti}
    always = [EDR] if entry == "peek_tag_id" else [EDR, PTI]
    if entry == "try_recover":
        # the look-ahead does not move the cursor (it only calls the two cursor-preserving functions above and never writes the position:
        # checked below as a premise), so for the distance computation it is summarised like ensure_data_read
        summ[PVH] = summary_edr
        always.append(PVH)
    eng = absrun.make_engine(prog, no_inline=["spec_util::validate_tag_path", "tools::arr_to_u64", "tools::arr_to_i64", "tools::arr_to_f64"],
                             post_assume={ITER + "::current_offset": it._pa_offset}, eof_partition=False,
                             summaries=summ, always_summarize=always, keep_dead_locals=(entry == "try_recover"))
    eng.models = dict(eng.models)
    eng.models["tools::read_vint"] = model_read_vint
    out = {"checks": [], "entry": entry_variant}
    sc = {}

    def V(f):
        return LinForm.var((sc["c"], (ix[f],)))

    def cur(st):
        bo = get_at(st.cells[sc["c"]], (ix["buffer_offset"],))
        if not isinstance(bo, Enum):
            return LinForm.var((sc["c"], (ix["buffer_offset"],))) + V("internal_buffer_position")
        if set(bo.variants) == {1}:
            return LinForm.var((sc["c"], (ix["buffer_offset"], ("v", 1), 0))) + V("internal_buffer_position")
        if set(bo.variants) == {0}:
            return V("internal_buffer_position")
        return None

    def gset(st, name, form):
        g = G[name]
        st.cells[g[0]] = Int(0, 4 * it.OFF, 64, False)
        st.kill_vars([g])
        st.cells[g[0]] = Int(0, 4 * it.OFF, 64, False)
        st.add_eq(LinForm.var(g) - form)

    def check(what, where, ok, why=None):
        out["checks"].append({"what": what, "where": where, "ok": bool(ok), "why": None if ok else (why or "not entailed")})

    def setup(eng_, st, frame):
        r = st.cells[frame.cell(1)]
        sc["c"] = r.cell
        it.constrain_self(eng_, st, r.cell, ix)
        v = st.cells[r.cell]
        bo = get_at(v, (ix["buffer_offset"],))
        if entry_variant != "plain":
            v = set_at(v, (ix["buffer_offset"],), Enum(bo.path, {0: ()} if entry_variant == "None" else {1: bo.variants[1]}))
        st.cells[r.cell] = v
        for n in G:
            st.cells[G[n][0]] = Int(0, 4 * it.OFF, 64, False)
        gset(st, "off0", cur(st))

    def on_copy(call=None, **kw):
        st = call.st
        if not any(x[0] == "moved" for x in st.tag):
            st.tag = st.tag + (("moved", 1),)

    def on_call(call=None, **kw):
        c = call
        if False:
            pass
        elif c.name == ITER + "::read_tag_data":
            cu = cur(c.st)
            sz, szl = c.arg_int(1)
            if cu is None or szl is None:
                return
            gset(c.st, "data0", cu)
            gset(c.st, "size", szl)
            c.st.ghost["payload_requested"] = 1
            check("the payload read is as long as the size declared in the header", "read_tag: call of read_tag_data", c.st.entails_eq(szl - LinForm.var(G["hsize"])))

    def only(st, cell, path, idx):
        """copy of st in which the enum at (cell, path) is known to be variant idx; None when infeasible"""
        e = get_at(st.cells[cell], path)
        if not isinstance(e, Enum) or idx not in e.variants:
            return None
        if len(e.variants) == 1:
            return st
        s2 = st.copy()
        try:
            s2.cells[cell] = set_at(s2.cells[cell], path, Enum(e.path, {idx: e.variants[idx]}))
            s2.apply_guard((cell, path), ("v", idx))
        except Infeasible:
            return None
        return s2

    def on_return(frame=None, st=None, **kw):
        p = frame.body.path
        r0 = frame.cell(0)
        v = st.cells.get(r0)
        if not isinstance(v, Enum):
            return
        if False:
            pass
        elif p == ITER + "::read_valid_tag_header":
            s2 = only(st, r0, (), 0)
            if s2 is None:
                return
            cu = cur(s2)
            ok = cu is not None and \
                s2.entails_eq(cu - LinForm.var(G["off0"]) - LinForm.var(G["idlen"]) - LinForm.var(G["szlen"]))
            check("reading a header advances the cursor by exactly id length + size length", "read_valid_tag_header Ok exit", ok)
            s3 = only(s2, r0, (("v", 0), 0, 2), 0)
            if s3 is not None:
                kp = LinForm.var((r0, (("v", 0), 0, 2, ("v", 0), 0)))
                check("a known element size is the value of the size vint", "read_valid_tag_header Ok exit", s3.entails_eq(kp - LinForm.var(G["vsize"])))
                gset(st, "hsize", kp)
        elif p == ITER + "::read_tag_data":
            s2 = only(st, r0, (), 0)
            if s2 is None:
                return
            s3 = only(s2, r0, (("v", 0), 0), 1)
            if s3 is not None:
                cu = cur(s3)
                ok = cu is not None and s3.entails_eq(cu - LinForm.var(G["data0"]) - LinForm.var(G["size"]))
                check("reading a payload advances the cursor by exactly the declared size", "read_tag_data Ok(Some) exit", ok)
                sl = get_at(s3.cells[r0], (("v", 0), 0, ("v", 1), 0))
                arr, loc = (eng.read_loc(s3, (sl.cell, sl.path)), (sl.cell, sl.path)) if getattr(sl, "cell", None) is not None else (None, None)
                ok2 = isinstance(arr, Arr) and s3.entails_eq(LinForm.var((loc[0], loc[1] + ("len",))) - LinForm.var(G["size"]))
                if not ok2 and isinstance(arr, Arr):
                    b = s3.lin_bounds(LinForm.var(G["size"]))
                    ok2 = arr.len.is_const() and b[0] == b[1] == arr.len.lo
                if not ok2 and isinstance(sl, Struct) and sl.path.startswith("std::ops::Range") and len(sl.fields) == 2:
                    # the payload handed back as a range of buffer indices (the caller slices): its extent is the declared size
                    base = (r0, (("v", 0), 0, ("v", 1), 0))
                    ok2 = s3.entails_eq(LinForm.var((base[0], base[1] + (1,))) - LinForm.var((base[0], base[1] + (0,))) - LinForm.var(G["size"]))
                check("the payload slice is exactly `size` bytes long", "read_tag_data Ok(Some) exit", ok2)
            s4 = only(s2, r0, (("v", 0), 0), 0)
            if s4 is not None:
                cu = cur(s4)
                ok = cu is not None and s4.entails_eq(cu - LinForm.var(G["data0"]))
                check("a payload that is cut short does not move the cursor", "read_tag_data Ok(None) exit", ok)

    def on_aggregate(st=None, frame=None, rv=None, span=None, **kw):
        # Ok(ProcessingTag { tag, size, tag_start, data_start }) built by read_tag itself: looked at here, before the Ok and Err paths meet
        if rv.get("agg") != "adt" or not strip_generics(rv["path"]).endswith("ProcessingTag") or frame.body.path != ITER + "::read_tag":
            return
        ops = dict(zip(rv["fields"], rv["ops"]))
        _, ts = eng.operand_int(st, frame, ops["tag_start"])
        _, ds = eng.operand_int(st, frame, ops["data_start"])
        check("tag_start recorded for an element is the cursor before its header", "read_tag: ProcessingTag construction",
              ts is not None and st.entails_eq(ts - LinForm.var(G["off0"])))
        check("data_start recorded for an element is the cursor right after its header", "read_tag: ProcessingTag construction",
              ds is not None and st.entails_eq(ds - LinForm.var(G["off0"]) - LinForm.var(G["idlen"]) - LinForm.var(G["szlen"])))

    def on_store(st=None, frame=None, stmt=None, dloc=None, val=None, lin=None, extras=(), **kw):
        # any write into the size of an open master (an element of tag_stack) during try_recover: new size = old size + bytes skipped
        if entry != "try_recover" or dloc is None or dloc[0] != sc["c"] or dloc[1][:1] != (ix["tag_stack"],):
            return
        root = frame
        while root.parent is not None:
            root = root.parent
        from absval import Ref
        b_ = frame.body

        def addends(op, depth=6):
            """operands of the addition that produced `op` (through copies, `.0` of a checked add, Known{..} aggregates, <&usize as Add>::add)"""
            for _ in range(depth):
                if op.get("k") not in ("copy", "move"):
                    return []
                pl = op["place"]
                fields = [e for e in pl["proj"] if e["k"] == "field"]
                if pl["proj"] and not (len(pl["proj"]) == 1 and fields and fields[0]["i"] == 0):
                    return []
                d = _def_of(b_, pl["local"])
                if d is None:
                    for cb_, t_, c_ in b_.calls():
                        if t_["dest"]["local"] == pl["local"] and not t_["dest"]["proj"] and c_ is not None and strip_generics(c_["path"]) in ("std::ops::Add::add",):
                            return list(t_["args"])
                    return []
                r_ = d["rv"]
                if r_["k"] == "binop" and r_["op"] in ("Add", "AddWithOverflow", "AddUnchecked"):
                    return [r_["a"], r_["b"]]
                if r_.get("agg") == "adt" and r_.get("variant") == "Known":
                    op = r_["ops"][0]
                    continue
                if r_["k"] == "use":
                    op = r_["op"]
                    continue
                return []
            return []
        rv = stmt["rv"]
        src = rv.get("op") if rv["k"] == "use" else (rv["ops"][0] if rv.get("agg") == "adt" and rv.get("variant") == "Known" else None)
        if src is None:
            return
        ads = addends(src)
        if not ads and not (isinstance(val, Int) or (isinstance(val, Enum) and 0 in val.variants)):
            return
        cu = cur(st)
        ok = False
        more = []
        for a_ in ads:
            if a_.get("k") in ("copy", "move") and not a_["place"]["proj"]:
                d2 = _def_of(b_, a_["place"]["local"])
                if d2 is not None and d2["rv"]["k"] == "use":
                    more.append(d2["rv"]["op"])     # a moved-from temporary: look at what it was copied from
        for a_ in ads + more:
            v_, loc_ = eng.eval_operand(st, frame, a_)
            if isinstance(v_, Ref) and v_.cell is not None:
                loc_ = (v_.cell, v_.path)
                v_ = eng.read_loc(st, loc_)
            al = eng.lin_of(st, v_, loc_) if isinstance(v_, Int) else None
            cands = [al] if al is not None else []
            if a_.get("k") in ("copy", "move") and a_["place"]["proj"]:
                # a captured variable read through the closure environment: the variable itself
                try:
                    rl = eng.resolve(st, frame, a_["place"])
                    if rl is not None and st.leaf(rl) is not None:
                        cands.append(LinForm.var(rl))
                except Exception:
                    pass
            for al in cands:
                if cu is not None and st.entails_eq(al - cu + LinForm.var(G["off0"])):
                    ok = True
        check("open known-size masters are stretched by exactly the number of bytes skipped", "try_recover: write to the size of an open master", ok,
              None if ads else "the new size is not computed as old size + distance")

    def on_index(call=None, arr_loc=None, index=None, index_lin=None, st=None, kind=None, **kw):
        if kind != "range" or arr_loc is None:
            return
        if entry == "read_tag" and arr_loc[0] == sc["c"] and arr_loc[1][:1] == (ix["buffer"],) and st.ghost.get("payload_requested"):
            # the payload slice: taken by the routine that fetches the payload, or by its caller from a range that routine returned.  Other
            # slices of the buffer taken after the payload was requested (the partial data of a truncated element) do not end at the cursor.
            sl, el = index_lin
            cu = cur(st)
            in_fetcher = call.frame.body.path == ITER + "::read_tag_data"
            ends_at_cursor = el is not None and st.entails_eq(el - V("internal_buffer_position"))
            if in_fetcher or ends_at_cursor:
                ok = sl is not None and el is not None and cu is not None and ends_at_cursor and \
                    st.entails_eq(el - sl - LinForm.var(G["size"])) and st.entails_eq(cu - LinForm.var(G["data0"]) - LinForm.var(G["size"]))
                check("the payload handed to the decoder is the `size` bytes that start where the header ended", "slice of the buffer after the payload was fetched", ok)
            return
        if entry != "peek_tag_id":
            return
        if arr_loc[0] == sc["c"] and arr_loc[1][:1] == (ix["buffer"],):
            sl, el = index_lin
            ok = sl is not None and el is not None and st.entails_eq(sl - V("internal_buffer_position")) and st.entails_eq(el - V("buffered_byte_length"))
            check("the id is parsed from the buffered bytes starting at the cursor", "peek_tag_id: slice of the buffer", ok)

    eng.on("copy_within", on_copy)
    eng.on("call", on_call)
    eng.on("return", on_return)
    eng.on("aggregate", on_aggregate)
    eng.on("index", on_index)
    eng.on("store", on_store)
    _forms, (pv, fv, cv) = it.inv_forms(ix)
    _absint.INVARIANT_VARS[:] = [pv, fv, cv]
    try:
        exits, frame = absrun.analyze(eng, body, None, setup)
    finally:
        _absint.INVARIANT_VARS[:] = []
        _absint.EXTRA_TEMPLATES[:] = []
    out["exits"] = len(exits)
    out["steps"] = eng.steps
    out["assumptions"] = sorted(eng.assumptions)
    return out


def r_tile(ctx):
    rep = RuleReport("R-TILE", "abstract interpretation of read_tag from any invariant-satisfying state, with ghost variables for the cursor at entry and "
                     "the lengths the two vint parsers report: the size is parsed right after the id, the header advances the cursor by exactly "
                     "id length + size length, a payload by exactly its declared size (and the slice handed to the decoder has that length), and "
                     "tag_start / data_start are the cursor before / after the header")
    prog = ctx.prog
    seen = {}
    bv = bo_variants(prog)
    for variant, entry in [(v, "read_tag") for v in bv] + [(bv[-1], "peek_tag_id")]:
        res = _tile_run(prog, variant, entry)
        rep.analysed.append("%s[buffer_offset=%s] (%d steps, %d exits)" % (entry, variant, res["steps"], res["exits"]))
        for a in res["assumptions"]:
            if a not in rep.assumed:
                rep.assumed.append(a)
        for c in res["checks"]:
            k = (c["what"], c["where"])
            prev = seen.get(k)
            seen[k] = (c["ok"] and (prev[0] if prev else True), c.get("why") or (prev[1] if prev else None), (prev[2] if prev else 0) + 1)
    expect = ["the size is parsed from the bytes right after the id", "reading a header advances the cursor by exactly id length + size length",
              "reading a payload advances the cursor by exactly the declared size", "the payload slice is exactly `size` bytes long",
              "tag_start recorded for an element is the cursor before its header", "data_start recorded for an element is the cursor right after its header",
              "a known element size is the value of the size vint", "the payload read is as long as the size declared in the header",
              "the id is parsed from the buffered bytes starting at the cursor",
              "the payload handed to the decoder is the `size` bytes that start where the header ended"]
    have = {w for (w, _) in seen}
    missing = [e for e in expect if e not in have]
    if missing:
        raise AnchorLost("R-TILE: observation points not reached: %s" % missing)
    for (what, where), (ok, why, n) in sorted(seen.items()):
        rep.instance("%s @ %s: %s on %d abstract paths" % (what, where, "proved" if ok else "NOT proved", n))
        rep.oblige(ok, "TILE|%s" % what.split(" (")[0], where, "%s (%s): %s" % (what, where, why))
    return rep


def r_recover_stretch(ctx):
    rep = RuleReport("R-RECOVER-STRETCH", "abstract interpretation of try_recover with a ghost for the cursor at entry: the amount added to every open known-size "
                     "master is exactly the number of bytes the cursor moved (so the masters end where they would have ended)")
    prog = ctx.prog
    from rules import iterator as it
    pvh = find_one(prog, "TagIterator::peek_valid_tag_header")
    bad = []
    from rules.common import only_called_under
    for b in it._reachable_fns(prog, pvh):
        for bd in [b] + prog.closures_of(b.path):
            if it._field_writes(bd, "internal_buffer_position") and not only_called_under(prog, b, ("ensure_data_read",)):
                bad.append(b.name)
    rep.instance("functions reachable from the look-ahead that write the position: %s" % (sorted(set(bad)) or "only ensure_data_read"))
    rep.oblige(not bad, "STRETCH|lookahead-pure", pvh.span, "the header look-ahead moves the cursor (position written by %s): the distance computed by try_recover is not the bytes skipped" % sorted(set(bad)))
    seen = {}
    for variant in bo_variants(prog):
        res = _tile_run(prog, variant, "try_recover")
        rep.analysed.append("try_recover[buffer_offset=%s] (%d steps)" % (variant, res["steps"]))
        for a in res["assumptions"]:
            if a not in rep.assumed:
                rep.assumed.append(a)
        for c in res["checks"]:
            k = (c["what"], c["where"])
            prev = seen.get(k)
            seen[k] = (c["ok"] and (prev[0] if prev else True), c.get("why") or (prev[1] if prev else None), (prev[2] if prev else 0) + 1)
    if not any(w.startswith("open known-size masters are stretched") for (w, _) in seen):
        raise AnchorLost("R-RECOVER-STRETCH: the size update of the open masters was not reached")
    for (what, where), (ok, why, n) in sorted(seen.items()):
        rep.instance("%s @ %s: %s on %d abstract paths" % (what, where, "proved" if ok else "NOT proved", n))
        rep.oblige(ok, "STRETCH|%s" % what.split(" (")[0], where, "%s (%s): %s" % (what, where, why))
    return rep
