"""engine — statements, terminators, calls and the fixpoint of the μMIR abstract interpreter."""
from collections import defaultdict, deque

from absval import (Arr, BOT, Bot, Closure, Enum, FnItem, Int, Iter, Ref, Struct, Top, UNIT, ISIZE_MAX, int_range, join_val)
from absint import (Infeasible, State, get_at, set_at, int_leaves, join_states, state_leq)
from interp import Interp, Frame, MAX_DEPTH, WIDEN_AFTER, PART_CAP, STEP_CAP
from lin import LinForm
import heapq
import mirlib

PANIC_FNS = (
    "core::panicking::", "std::rt::begin_panic", "std::rt::panic_fmt", "core::result::unwrap_failed",
    "core::option::unwrap_failed", "core::option::expect_failed", "core::slice::index::slice_",
    "std::process::abort", "core::panicking::panic",
)


class _Worklist:
    """priority worklist keyed by reverse postorder of the block; FIFO among equals"""

    def __init__(self, rpo):
        self.rpo = rpo
        self.heap = []
        self.members = set()
        self.seq = 0

    def append(self, key):
        if key in self.members:
            return
        self.members.add(key)
        self.seq += 1
        heapq.heappush(self.heap, (self.rpo.get(key[0], 1 << 30), self.seq, key))

    def popleft(self):
        _, _, key = heapq.heappop(self.heap)
        self.members.discard(key)
        return key

    def __contains__(self, key):
        return key in self.members

    def __bool__(self):
        return bool(self.heap)


class Call:
    """what a std model sees"""

    def __init__(self, I, st, frame, bb, term, callee):
        self.I, self.st, self.frame, self.bb, self.term, self.callee = I, st, frame, bb, term, callee
        self.name = mirlib.strip_generics(callee["path"]) if callee else None
        self.rname = mirlib.strip_generics(callee["resolved"]["path"]) if callee and "resolved" in callee else self.name
        self.args = term["args"]
        self.results = []
        self.span = mirlib.Span(term["span"])

    def arg(self, i, st=None):
        return self.I.eval_operand(st or self.st, self.frame, self.args[i])

    def arg_int(self, i, st=None):
        return self.I.operand_int(st or self.st, self.frame, self.args[i])

    def deref(self, v, st=None):
        """value pointed to by a Ref value (and its loc)"""
        st = st or self.st
        if isinstance(v, Ref) and v.cell is not None:
            return self.I.read_loc(st, (v.cell, v.path)), (v.cell, v.path)
        return Top(), None

    def ret_ty(self):
        return self.term["dest"].get("ty")

    def ret(self, val, lin=None, src_loc=None, st=None, defn=None, extras=()):
        st = st or self.st
        self.I.write_place(st, self.frame, self.term["dest"], val, lin, src_loc)
        dloc = self.I.resolve(st, self.frame, self.term["dest"])
        if dloc is not None:
            if defn is not None:
                st.defs[dloc] = defn
            for ex in extras:
                if ex[0] == "reloc":
                    st.relocate_guards(ex[1], (dloc[0], dloc[1] + ex[2]))
                    continue
                sub, l = ex
                leaf = st.leaf((dloc[0], dloc[1] + sub))
                if leaf is not None and not leaf.is_const() and l is not None and not l.is_const():
                    st.cons.add_eq(LinForm.var((dloc[0], dloc[1] + sub)) - l)
        self.results.append(st)
        return st

    def ret_top(self, st=None):
        st = st or self.st
        return self.ret(self.I.top_of(self.ret_ty(), st, ("ret", self.frame.uid, self.bb)), st=st)

    def oblige(self, kind, desc, ok, st=None, assumed=None):
        self.I.oblige(self.frame, self.bb, kind, desc, ok, st or self.st, self.span, assumed)

    def fork(self):
        return self.st.copy()

    def tmp_cell(self, tag=0):
        return ("T", self.frame.uid, self.bb, tag)


def _is_result(v):
    return isinstance(v, Enum) and v.path == "std::result::Result"


def _ret_shape(v, depth=0):
    if isinstance(v, Enum) and depth < 3:
        return tuple((i, tuple(_ret_shape(p, depth + 1) for p in pl[:1])) for i, pl in sorted(v.variants.items()))
    if isinstance(v, Int) and v.bits == 1 and v.is_const():
        return ("b", v.lo)          # Ok(true) and Ok(false) are different outcomes
    return ()


class Engine(Interp):
    # ------------------------------------------------------------------ rvalues
    def eval_rvalue(self, st, frame, bb, rv, dest):
        """-> list of (state, value, lin, src_loc, defn, extras)"""
        k = rv["k"]
        if k == "use":
            v, loc = self.eval_operand(st, frame, rv["op"])
            if isinstance(v, State):
                return []
            if isinstance(v, list):     # promoted evaluated -> list of exit states (in place)
                v = v[0]
            return [(st, v, self.lin_of(st, v, loc), loc, st.defs.get(loc) if loc else None, ())]
        if k in ("ref", "rawptr"):
            loc = self.resolve(st, frame, rv["place"])
            if loc is None:
                return [(st, Ref(None, (), rv.get("mut", False)), None, None, None, ())]
            return [(st, Ref(loc[0], loc[1], rv.get("mut", False)), None, None, None, ())]
        if k == "binop":
            a, la = self.operand_int(st, frame, rv["a"])
            b, lb = self.operand_int(st, frame, rv["b"])
            op = rv["op"]
            dty = dest.get("ty") or {}
            if a is None or b is None:
                if op in ("Eq", "Ne", "Lt", "Le", "Gt", "Ge"):
                    return [(st, Int.boolean(), None, None, None, ())]
                return [(st, self.top_of(dty, st, ("binop", frame.uid, bb)), None, None, None, ())]
            if op.endswith("WithOverflow"):
                op0 = op[:-len("WithOverflow")]
                bits, signed = a.bits, a.signed
                tlo, thi = int_range(bits, signed)
                lo, hi, lin, tz = self.arith(st, op0, a, la, b, lb, bits, signed)
                if tlo <= lo and hi <= thi:
                    val = Struct("tuple", [self.mk_int(lo, hi, bits, signed, tz), Int.const(0, 1, False)])
                    return [(st, val, None, None, None, (((0,), lin),))]
                if hi < tlo or lo > thi:
                    val = Struct("tuple", [Int.top(bits, signed), Int.const(1, 1, False)])
                    return [(st, val, None, None, None, ())]
                if lin is not None and st.entails_le(lin - thi) and st.entails_le(LinForm.constant(tlo) - lin):
                    val = Struct("tuple", [self.mk_int(max(lo, tlo), min(hi, thi), bits, signed, tz), Int.const(0, 1, False)])
                    return [(st, val, None, None, None, (((0,), lin),))]
                out = []
                # no-overflow state
                s1 = st.copy()
                try:
                    if lin is not None:
                        s1.add_le(lin - thi)
                        s1.add_le(LinForm.constant(tlo) - lin)
                    val = Struct("tuple", [self.mk_int(max(lo, tlo), min(hi, thi), bits, signed, tz), Int.const(0, 1, False)])
                    out.append((s1, val, None, None, None, (((0,), lin),)))
                except Infeasible:
                    pass
                s2 = st.copy()
                try:
                    if lin is not None:
                        if lo >= tlo:          # only upward overflow possible
                            s2.add_le(LinForm.constant(thi + 1) - lin)
                        elif hi <= thi:        # only downward
                            s2.add_le(lin - (tlo - 1))
                    val2 = Struct("tuple", [Int.top(bits, signed), Int.const(1, 1, False)])
                    out.append((s2, val2, None, None, None, ()))
                except Infeasible:
                    pass
                return out
            v, lin, d = self.binop(st, op, a, la, b, lb, dty)
            if d is None and op == "BitAnd":
                d = None
            return [(st, v, lin, None, d, ())]
        if k == "unop":
            op = rv["op"]
            if op == "PtrMetadata":
                v, loc = self.eval_operand(st, frame, rv["a"])
                if isinstance(v, Ref) and v.cell is not None:
                    arr = self.read_loc(st, (v.cell, v.path))
                    if isinstance(arr, Arr) and isinstance(arr.len, Int):
                        lloc = (v.cell, v.path + ("len",))
                        return [(st, arr.len, self.lin_of(st, arr.len, lloc), None, None, ())]
                return [(st, Int(0, ISIZE_MAX, 64, False), None, None, None, ())]
            a, la = self.operand_int(st, frame, rv["a"])
            if a is None:
                return [(st, self.top_of(dest.get("ty"), st, ("unop", frame.uid, bb)), None, None, None, ())]
            if op == "Not":
                if a.bits == 1:
                    v = Int(1 - a.hi, 1 - a.lo, 1, False)
                    _, aloc = self.eval_operand(st, frame, rv["a"])
                    d = ("not", aloc) if aloc is not None else None
                    return [(st, v, (LinForm.constant(1) - la) if la is not None else None, None, d, ())]
                if a.signed:
                    return [(st, self.mk_int(-a.hi - 1, -a.lo - 1, a.bits, True), (-la) - 1 if la is not None else None, None, None, ())]
                m = (1 << a.bits) - 1
                return [(st, self.mk_int(m - a.hi, m - a.lo, a.bits, False), (LinForm.constant(m) - la) if la is not None else None, None, None, ())]
            if op == "Neg":
                tlo, thi = int_range(a.bits, a.signed)
                lo, hi = -a.hi, -a.lo
                if tlo <= lo and hi <= thi:
                    return [(st, self.mk_int(lo, hi, a.bits, a.signed), (-la) if la is not None else None, None, None, ())]
                return [(st, Int.top(a.bits, a.signed), None, None, None, ())]
            return [(st, self.top_of(dest.get("ty"), st, ("unop", frame.uid, bb)), None, None, None, ())]
        if k == "cast":
            kind = rv["kind"]
            v, loc = self.eval_operand(st, frame, rv["op"])
            ty = rv["ty"]
            if kind == "IntToInt" and isinstance(v, Int):
                tk = ty.get("k")
                if tk in ("int", "uint"):
                    bits, signed = ty["bits"], tk == "int"
                    tlo, thi = int_range(bits, signed)
                    lin = self.lin_of(st, v, loc)
                    if tlo <= v.lo and v.hi <= thi:
                        return [(st, Int(v.lo, v.hi, bits, signed, v.tz), lin, None, None, ())]
                    if v.is_const():
                        x = v.lo & ((1 << bits) - 1)
                        if signed and x > thi:
                            x -= 1 << bits
                        return [(st, Int.const(x, bits, signed), None, None, None, ())]
                    # a whole interval wraps uniformly when both ends fall into the same period of the target type
                    # (e.g. u64 in [2^63, 2^64-1] as i64 is [-2^63, -1])
                    m = 1 << bits
                    if v.hi - v.lo < m:
                        def wrap(x):
                            y = x & (m - 1)
                            return y - m if (signed and y > thi) else y
                        wlo, whi = wrap(v.lo), wrap(v.hi)
                        if wlo <= whi and whi - wlo == v.hi - v.lo:
                            return [(st, Int(wlo, whi, bits, signed), None, None, None, ())]
                    return [(st, Int.top(bits, signed), None, None, None, ())]
                if tk == "bool":
                    return [(st, v, None, None, None, ())]
            if kind.startswith("PointerCoercion") or kind in ("Transmute", "PtrToPtr", "Subtype"):
                return [(st, v, self.lin_of(st, v, loc) if isinstance(v, Int) else None, loc if not isinstance(v, Int) else None, None, ())]
            return [(st, self.top_of(ty, st, ("cast", frame.uid, bb)), None, None, None, ())]
        if k == "discr":
            loc = self.resolve(st, frame, rv["place"])
            v = self.read_loc(st, loc)
            if isinstance(v, Enum):
                ds = sorted(self.enum_discr_of(v.path, i) for i in v.variants)
                if len(ds) == 1:
                    return [(st, Int.const(ds[0], 64, True), None, None, None, ())]
                return [(st, Int(ds[0], ds[-1], 64, True), None, None, ("discr", loc), ())]
            return [(st, Int.top(64, True), None, None, None, ())]
        if k == "agg":
            vals = []
            extras = []
            for i, o in enumerate(rv["ops"]):
                v, loc = self.eval_operand(st, frame, o)
                vals.append((v, loc))
            a = rv["agg"]
            if a == "tuple":
                val = Struct("tuple", [v for v, _ in vals]) if vals else UNIT
                pre = lambda i: (i,)
            elif a == "array":
                cells = {i: v for i, (v, _) in enumerate(vals)}
                elem = BOT
                for v, _ in vals:
                    elem = join_val(elem, v)
                if elem.is_bot():
                    elem = self.top_of(rv.get("elem_ty"), st, ("arr", frame.uid, bb))
                val = Arr(Int.const(len(vals), 64, False), elem, cells, "array")
                pre = lambda i: (("c", i),)
            elif a == "adt":
                path = mirlib.strip_generics(rv["path"])
                if rv["is_enum"]:
                    val = Enum(path, {rv["variant_i"]: tuple(v for v, _ in vals)})
                    vi = rv["variant_i"]
                    pre = lambda i: (("v", vi), i)
                else:
                    val = Struct(path, [v for v, _ in vals])
                    pre = lambda i: (i,)
            elif a == "closure":
                val = Closure(mirlib.strip_generics(rv["def"]), [v for v, _ in vals], tuple(sorted(frame.cparams.items())))
                pre = lambda i: (i,)
            elif a == "rawptr":
                return [(st, vals[0][0] if vals else Top(), None, None, None, ())]
            else:
                return [(st, Top(), None, None, None, ())]
            for i, (v, loc) in enumerate(vals):
                if loc is None:
                    continue
                extras.append(("reloc", loc, pre(i)))
                if isinstance(v, Int):
                    l = self.lin_of(st, v, loc)
                    if l is not None:
                        extras.append((pre(i), l))
                else:
                    for p, leaf in int_leaves(v):
                        if not leaf.is_const() and st.leaf((loc[0], loc[1] + p)) is not None:
                            extras.append((pre(i) + p, LinForm.var((loc[0], loc[1] + p))))
            return [(st, val, None, None, None, tuple(extras))]
        if k == "repeat":
            v, loc = self.eval_operand(st, frame, rv["op"])
            c = rv["count"]
            n = c.get("v") if c.get("k") == "cval" else frame.cparams.get(c.get("name"))
            ln = Int.const(n, 64, False) if n is not None else Int(0, ISIZE_MAX, 64, False)
            return [(st, Arr(ln, v, None, "array"), None, None, None, ())]
        return [(st, self.top_of(dest.get("ty"), st, ("rv", frame.uid, bb)), None, None, None, ())]

    def _split_escaping_bools(self, st, frame, rv):
        """a boolean that still carries a pending definition (it is the outcome of a comparison / a variant test) and is about to be stored
        into an aggregate escapes the place where a later `switch` could follow that definition: decide it here, once per outcome"""
        states = [st]
        if rv.get("k") != "agg" or rv.get("agg") not in ("adt", "tuple"):
            return states
        for op in rv.get("ops", ()):
            if op.get("k") not in ("copy", "move") or op["place"]["proj"]:
                continue
            loc = (frame.cell(op["place"]["local"]), ())
            nxt = []
            for s in states:
                leaf = s.leaf(loc)
                d = s.defs.get(loc)
                if leaf is None or leaf.bits != 1 or leaf.is_const() or d is None or d[0] not in ("cmp", "not", "isvar"):
                    nxt.append(s)
                    continue
                for val in (0, 1):
                    s2 = s.copy() if val == 0 else s
                    try:
                        self.assume_var(s2, loc, val, True)
                        nxt.append(s2)
                    except Infeasible:
                        pass
            states = nxt
        return states

    def exec_stmt(self, st, frame, bb, idx, stmt):
        k = stmt["k"]
        if k == "assign":
            out = []
            for st_ in self._split_escaping_bools(st, frame, stmt["rv"]):
              for (s, val, lin, src, defn, extras) in self.eval_rvalue(st_, frame, bb, stmt["rv"], stmt["place"]):
                  dloc = self.resolve(s, frame, stmt["place"], for_write=True)
                  if dloc is None:
                      out.append(s)
                      continue
                  if self.hooks.get("store"):
                      # before the write: the old contents of the destination are still described by the state
                      self.emit("store", st=s, frame=frame, stmt=stmt, dloc=dloc, val=val, lin=lin, extras=extras)
                  # extras/defs may mention the destination itself (x = x + 1): lin computed before the kill
                  self.write_loc(s, dloc, val, lin, src)
                  if stmt["rv"]["k"] == "agg" and self.hooks.get("aggregate"):
                      self.emit("aggregate", st=s, frame=frame, rv=stmt["rv"], span=mirlib.Span(stmt["span"]), place=stmt["place"])
                  if defn is not None and "elem" not in dloc[1]:
                      if not any(v[0] == dloc[0] and v[1][:len(dloc[1])] == dloc[1] for v in _defvars(defn)):
                          s.defs[dloc] = defn
                  for ex in extras:
                      if ex[0] == "reloc":
                          s.relocate_guards(ex[1], (dloc[0], dloc[1] + ex[2]))
                          continue
                      sub, l = ex
                      if l is None or l.is_const():
                          continue
                      tv = (dloc[0], dloc[1] + sub)
                      if tv in l.terms:
                          continue
                      leaf = s.leaf(tv)
                      if leaf is not None and not leaf.is_const():
                          s.cons.add_eq(LinForm.var(tv) - l)
                  out.append(s)
            return out
        if k == "dead":
            st.kill_cell(frame.cell(stmt["local"]))
            return [st]
        if k == "setdiscr":
            loc = self.resolve(st, frame, stmt["place"])
            v = self.read_loc(st, loc)
            if isinstance(v, Enum) and loc is not None:
                nv = v.only(stmt["variant_i"])
                if not nv.is_bot():
                    self.write_loc(st, loc, nv)
            return [st]
        return [st]

    # ------------------------------------------------------------------ terminators
    def exec_term(self, st, frame, bb, term):
        """-> list of (succ_bb or 'return', state)"""
        k = term["k"]
        if k == "goto":
            return [(term["target"], st)]
        if k == "return":
            return [("return", st)]
        if k in ("unreachable", "resume", "other"):
            return []
        if k == "drop":
            return [(term["target"], st)]
        if k == "switch":
            v, loc = self.eval_operand(st, frame, term["discr"])
            out = []
            vals = [x for x, _ in term["targets"]]
            for value, tgt in term["targets"]:
                if isinstance(v, Int) and (value < v.lo or value > v.hi):
                    continue
                s2 = st.copy()
                try:
                    if loc is not None:
                        self.assume_var(s2, loc, value, True)
                    out.append((tgt, s2))
                except Infeasible:
                    pass
            if isinstance(v, Int) and v.is_const() and v.lo in vals:
                return out
            s3 = st.copy()
            try:
                if loc is not None:
                    for value in vals:
                        self.assume_var(s3, loc, value, False)
                    # after excluding, also exclude interior values if interval small
                    leaf = s3.leaf(loc)
                    if leaf is not None and not leaf.is_empty() and all(x in vals for x in range(leaf.lo, min(leaf.hi, leaf.lo + 64) + 1)) and leaf.hi - leaf.lo < 64:
                        raise Infeasible()
                out.append((term["otherwise"], s3))
            except Infeasible:
                pass
            return out
        if k == "assert":
            v, loc = self.eval_operand(st, frame, term["cond"])
            exp = 1 if term["expected"] else 0
            ok = isinstance(v, Int) and v.is_const() and v.lo == exp
            desc = "%s(%s)" % (term["kind"], ", ".join(_stable_operand(o, frame.body) for o in term["ops"]))
            self.oblige(frame, bb, "ASSERT", desc, ok, st, mirlib.Span(term["span"]))
            s2 = st
            try:
                if loc is not None:
                    self.assume_var(s2, loc, exp, True)
                elif isinstance(v, Int) and v.is_const() and v.lo != exp:
                    return []
                return [(term["target"], s2)]
            except Infeasible:
                return []
        if k == "call":
            outs = self.do_call(st, frame, bb, term)
            if term["target"] is None:
                return []
            return [(term["target"], s) for s in outs]
        return []

    # ------------------------------------------------------------------ calls
    def do_call(self, st, frame, bb, term):
        callee = mirlib.callee_of(term)
        if callee is None:
            # indirect call through fn pointer / closure value: havoc
            c = Call(self, st, frame, bb, term, None)
            c.ret_top()
            return c.results
        c = Call(self, st, frame, bb, term, callee)
        self.emit("call", call=c)
        name, rname = c.name, c.rname
        if term["target"] is None or any(name.startswith(p) for p in PANIC_FNS):
            if any(name.startswith(p) for p in PANIC_FNS) or term["target"] is None:
                # diverging call: explicit panic!/unreachable!/expect failure ...
                if any(name.startswith(p) for p in PANIC_FNS) or "panic" in name:
                    self.oblige(frame, bb, "PANIC", "call %s" % name, False, st, c.span)
                    return []
        m = self.models.get(rname) or self.models.get(name)
        if m is None:
            for pref, fn in self.models.get("#prefix", ()):
                if name.startswith(pref) or rname.startswith(pref):
                    m = fn
                    break
        if m is not None:
            if name != "std::iter::Iterator::next":
                self._untrack_iters(c)
            r = m(c)
            if r is not NotImplemented:
                return c.results
        body = None
        for cand in (rname, name):
            body = self.prog.bodies.get(cand)
            if body is not None:
                break
        if body is not None and (body.path in self.opt.get("always_summarize", ()) and (body.path in self.summaries or body.key in self.summaries)):
            return self.recursive_call(c, body)
        if body is not None and body.key not in self.no_inline and body.path not in self.no_inline:
            return self.inline_call(c, body)
        self.unmodelled[rname] += 1
        self.default_call(c)
        return c.results

    def _untrack_iters(self, c):
        """loop-universal inference follows the items an iterator hands out through next() only: any other modelled operation that gets
        the iterator by reference may draw items from it unseen, which ends the tracking (see models._exhausted)"""
        for i in range(len(c.args)):
            v, _ = c.arg(i)
            for _hop in range(2):
                if not (isinstance(v, Ref) and v.cell is not None):
                    break
                loc = (v.cell, v.path)
                tgt = self.read_loc(c.st, loc)
                if isinstance(tgt, Iter):
                    if tgt.seen is not None:
                        c.st.cells[loc[0]] = set_at(c.st.cells[loc[0]], loc[1],
                                                    Iter(tgt.ikind, tgt.remaining, tgt.elem, tgt.start, tgt.end, tgt.extra, tgt.cells, tgt.pos))
                    break
                v = tgt

    def default_call(self, c):
        """unknown callee: havoc everything reachable through &mut arguments, return ⊤"""
        st = c.st
        for i, a in enumerate(c.args):
            v, _ = c.arg(i)
            self.havoc_through(st, v, a)
        c.ret_top()

    def havoc_through(self, st, v, operand=None):
        if isinstance(v, Ref) and v.cell is not None and v.mut:
            old = self.read_loc(st, (v.cell, v.path))
            self.write_loc(st, (v.cell, v.path), self.havoc_val(old))

    def havoc_val(self, v):
        if isinstance(v, Int):
            return Int.top(v.bits, v.signed) if v.bits > 1 else Int.boolean()
        if isinstance(v, Struct):
            return Struct(v.path, [self.havoc_val(f) for f in v.fields])
        if isinstance(v, Arr):
            return Arr(Int(0, ISIZE_MAX, 64, False) if v.container not in ("array",) else v.len, self.havoc_val(v.elem), None, v.container, v.view_of)
        if isinstance(v, Enum):
            return Enum(v.path, {i: tuple(self.havoc_val(f) for f in fs) for i, fs in v.variants.items()})
        if isinstance(v, Ref):
            return v
        return Top()

    def callee_cparams(self, frame, callee, body):
        cp = {}
        gens = body.d.get("generics", [])
        args = callee.get("args", [])
        if len(gens) == len(args):
            for g, a in zip(gens, args):
                if g["kind"] == "const":
                    if a.get("k") == "cval":
                        cp[g["name"]] = a["v"]
                    elif a.get("k") == "cparam" and a["name"] in frame.cparams:
                        cp[g["name"]] = frame.cparams[a["name"]]
        else:
            # fall back: positional over const args only
            cg = [g for g in gens if g["kind"] == "const"]
            ca = [a for a in args if a.get("k") in ("cval", "cparam")]
            for g, a in zip(cg, ca):
                if a.get("k") == "cval":
                    cp[g["name"]] = a["v"]
                elif a["name"] in frame.cparams:
                    cp[g["name"]] = frame.cparams[a["name"]]
        return cp

    def inline_call(self, c, body, arg_vals=None, cparams=None):
        """analyse `body` in the caller's context; arg_vals: list of (val, loc) overriding operands"""
        frame = c.frame
        if frame.depth >= MAX_DEPTH or body.key in frame.stack_paths():
            return self.recursive_call(c, body)
        if cparams is None:
            cparams = self.callee_cparams(frame, c.callee, body) if c.callee else {}
        uid = frame.uid + ((c.bb, body.name),)
        nf = Frame(body, uid, cparams, frame)
        st = c.st
        if arg_vals is None:
            arg_vals = [self.eval_operand(st, frame, a) for a in c.args]
        for i, (v, loc) in enumerate(arg_vals):
            if i + 1 > body.arg_count:
                break
            self.write_loc(st, (nf.cell(i + 1), ()), v, self.lin_of(st, v, loc) if isinstance(v, Int) else None, loc if not isinstance(v, Int) else None)
        exits = self.run_body(nf, st)
        outs = []
        for s in exits:
            rv = s.cells.get(nf.cell(0), UNIT)
            rloc = (nf.cell(0), ())
            self.write_place(s, frame, c.term["dest"], rv, self.lin_of(s, rv, rloc) if isinstance(rv, Int) else None, rloc)
            # a returned boolean keeps its pending definition (outcome of a comparison): kill_frame re-expresses the callee's
            # parameters in it through what the caller passed
            d0 = s.defs.get(rloc)
            if d0 is not None and isinstance(rv, Int) and rv.bits == 1 and not rv.is_const():
                dl = self.resolve(s, frame, c.term["dest"])
                if dl is not None and "elem" not in dl[1]:
                    s.defs[dl] = d0
            try:
                self.kill_frame(s, nf)
                pa = self.opt.get("post_assume", {}).get(body.path)
                if pa is not None:
                    pa(self, s, self.resolve(s, frame, c.term["dest"]))
            except Infeasible:
                continue
            outs.append(s)
        c.results.extend(outs)
        return outs

    def kill_frame(self, st, frame):
        uid = frame.uid
        cells = [k for k in st.cells if k[0] == "L" and k[1] == uid]
        vs = [v for v in st.cons.all_vars() if v[0][0] == "L" and v[0][1] == uid]
        for k, d in list(st.defs.items()):
            if k[0][0] == "L" and k[0][1] == uid:
                vs.append(k)
        if st.guards:
            for fs in st.guards.values():
                for f in fs:
                    if f[0] == "iv":
                        if f[1][0][0] == "L" and f[1][0][1] == uid:
                            vs.append(f[1])
                    elif f[0] in ("le", "eq"):
                        for v in f[1].terms:
                            if v[0][0] == "L" and v[0][1] == uid:
                                vs.append(v)
        st.kill_vars(vs, keep_bounds=True)
        dead = [k for k, d in st.defs.items() if any(v[0][0] == "L" and v[0][1] == uid for v in _defvars(d))]
        for k in dead:
            del st.defs[k]
        for k in cells:
            st.kill_guards(k, (), True)
            del st.cells[k]
        # temporaries (slice views, iterator items) created by this frame, unless still referenced
        tcells = [k for k in st.cells if k[0] == "T" and k[1] == uid]
        if tcells:
            live = _referenced_cells(st)
            for k in tcells:
                if k not in live:
                    st.kill_cell(k)

    def recursive_call(self, c, body):
        s = self.summaries.get(body.key) or self.summaries.get(body.path)
        if s is not None:
            r = s(c, body)
            if r is not NotImplemented:
                return c.results
        self.notes.append("recursion/depth cut at %s called from %s" % (body.key, c.frame.body.key))
        self.default_call(c)
        return c.results

    def call_closure(self, c, clo, args, st=None):
        """run closure value `clo` on args [(val, loc)]; -> list of (state, retval, retloc, frame)"""
        st = st or c.st
        if isinstance(clo, FnItem):
            # a function item used as a callable: an enum-variant constructor (`map(Known)`) builds the variant; a function of the program is run
            path = mirlib.strip_generics(clo.callee.get("path", ""))
            if "::" in path and len(args) >= 1:
                adt_path, vname = path.rsplit("::", 1)
                info = self.adt_info(adt_path)
                names = [v["name"] for v in info["variants"]] if info and info.get("is_enum") else \
                    {"std::option::Option": ["None", "Some"], "std::result::Result": ["Ok", "Err"]}.get(adt_path)
                if names and vname in names:
                    vi = names.index(vname)
                    val = Enum(adt_path, {vi: tuple(v for v, _ in args)})
                    # built in a temporary so that its scalar payloads stay related to the arguments they were built from
                    cell = ("T", c.frame.uid, c.bb, ("ctor", vname, len(c.results)))
                    st.kill_cell(cell)
                    st.cells[cell] = val
                    for k, (v, loc) in enumerate(args):
                        if isinstance(v, Int) and not v.is_const():
                            l = self.lin_of(st, v, loc)
                            if l is not None and not l.is_const():
                                st.cons.add_eq(LinForm.var((cell, (("v", vi), k))) - l)
                        elif loc is not None and not isinstance(v, Int):
                            for pth, leaf in int_leaves(v):
                                if not leaf.is_const() and st.leaf((loc[0], loc[1] + pth)) is not None:
                                    st.cons.add_eq(LinForm.var((cell, (("v", vi), k) + pth)) - LinForm.var((loc[0], loc[1] + pth)))
                    return [(st, val, (cell, ()), None)]
            fb = self.prog.bodies.get(path)
            if fb is None and len(args) == 1 and path.rsplit("::", 1)[-1] in ("from", "into", "to_vec", "to_owned", "into_vec"):
                # a std conversion of an array / slice into an owned vector used as a callable (`map(Vec::from)`): same length, same elements
                v, loc = args[0]
                if isinstance(v, Ref):
                    try:
                        v = self.read_loc(st, (v.cell, v.path))
                    except Exception:
                        v = None
                rty = (clo.callee.get("path", "") or "") + " " + " ".join(str(a.get("path", "")) for a in (clo.callee.get("args") or [])[:1] if isinstance(a, dict))
                if isinstance(v, Arr) and ("Vec" in rty or path.rsplit("::", 1)[-1] in ("to_vec", "into_vec")):
                    cell = ("T", c.frame.uid, c.bb, ("conv", len(c.results)))
                    st.kill_cell(cell)
                    st.cells[cell] = Arr(v.len, v.elem, v.cells, "vec")
                    return [(st, st.cells[cell], (cell, ()), None)]
            if fb is None or fb.kind == "closure":
                return None
            frame = c.frame
            if frame.depth >= MAX_DEPTH or fb.key in frame.stack_paths():
                return None
            uid = frame.uid + ((c.bb, fb.name, len(c.results)),)
            nf = Frame(fb, uid, {}, frame)
            for i, (v, loc) in enumerate(args):
                self.write_loc(st, (nf.cell(i + 1), ()), v, self.lin_of(st, v, loc) if isinstance(v, Int) else None, loc if not isinstance(v, Int) else None)
            return [(s, s.cells.get(nf.cell(0), UNIT), (nf.cell(0), ()), nf) for s in self.run_body(nf, st)]
        if not isinstance(clo, Closure):
            return None
        body = self.prog.bodies.get(clo.def_path)
        if body is None:
            return None
        frame = c.frame
        if frame.depth >= MAX_DEPTH or body.key in frame.stack_paths():
            return None
        uid = frame.uid + ((c.bb, body.name, len(c.results)),)
        nf = Frame(body, uid, dict(clo.env), frame)
        envty = body.locals[1]["ty"] if len(body.locals) > 1 else None
        tmp = ("T", uid, "env")
        if envty and envty.get("k") == "ref":
            st.cells[tmp] = clo
            self.write_loc(st, (nf.cell(1), ()), Ref(tmp, (), envty.get("mut", False)))
        else:
            self.write_loc(st, (nf.cell(1), ()), clo)
        for i, (v, loc) in enumerate(args):
            self.write_loc(st, (nf.cell(i + 2), ()), v, self.lin_of(st, v, loc) if isinstance(v, Int) else None, loc if not isinstance(v, Int) else None)
        exits = self.run_body(nf, st)
        out = []
        for s in exits:
            rv = s.cells.get(nf.cell(0), UNIT)
            out.append((s, rv, (nf.cell(0), ()), nf))
        return out

    def finish_closure(self, st, nf):
        if nf is None:
            return
        self.kill_frame(st, nf)
        st.cells.pop(("T", nf.uid, "env"), None)

    # ------------------------------------------------------------------ fixpoint
    def loop_info(self, body):
        info = self._loop_heads.get(body.key)
        if info is not None:
            return info
        # back edges by DFS
        color = {}
        heads = set()
        stack = [(0, iter(body.successors(0)))]
        color[0] = 1
        while stack:
            b, it = stack[-1]
            adv = False
            for s in it:
                if color.get(s, 0) == 0:
                    color[s] = 1
                    stack.append((s, iter(body.successors(s))))
                    adv = True
                    break
                elif color.get(s) == 1:
                    heads.add(s)
            if not adv:
                color[b] = 2
                stack.pop()
        loops = {}
        for h in heads:
            fwd = body.reachable_from(h)
            back = body.can_reach([h])
            scc = fwd & back
            mod = set()
            for b in scc:
                for stmt in body.blocks[b]["stmts"]:
                    if stmt["k"] == "assign":
                        mod.add(stmt["place"]["local"])
                        rv = stmt["rv"]
                        if rv["k"] in ("ref", "rawptr") and rv.get("mut"):
                            mod.add(rv["place"]["local"])
                t = body.blocks[b]["term"]
                if t["k"] == "call":
                    mod.add(t["dest"]["local"])
            has_next = any(body.blocks[b]["term"]["k"] == "call" and (mirlib.callee_name(body.blocks[b]["term"]) or "").endswith("Iterator::next") for b in scc)
            loops[h] = (scc, mod, has_next)
        info = loops
        self._loop_heads[body.key] = info
        return info

    def thresholds(self, body):
        t = self._thresholds.get(body.key)
        if t is None:
            s = {0, 1, 8, 16, 255, 256, 65535, ISIZE_MAX, (1 << 64) - 1, (1 << 32) - 1, (1 << 56) - 1, (1 << 56)}
            for b, i, stmt in body.statements(live_only=False):
                if stmt["k"] == "assign":
                    for o in _operands(stmt["rv"]):
                        if o.get("k") == "const" and "v" in o:
                            try:
                                v = int(o["v"])
                                s.update((v, v - 1, v + 1))
                            except ValueError:
                                pass
            t = sorted(s)
            self._thresholds[body.key] = t
        return t

    def template_vars(self, st, frame, mod):
        """scalars whose pairwise order is tried as a loop invariant: loop-carried integer locals and the lengths of
        the containers that frame locals refer to"""
        out = []
        for l in sorted(mod):
            v = st.cells.get(frame.cell(l))
            if isinstance(v, Int) and v.bits > 1:
                out.append((frame.cell(l), ()))
        for i in range(len(frame.body.locals)):
            v = st.cells.get(frame.cell(i))
            if isinstance(v, Ref) and v.cell is not None:
                t = self.read_loc(st, (v.cell, v.path))
                if isinstance(t, Arr) and isinstance(t.len, Int):
                    lv = (v.cell, v.path + ("len",))
                    if lv not in out:
                        out.append(lv)
            if len(out) >= 10:
                break
        return out

    def loop_key(self, st, frame, mod, has_next=False):
        """partition key of a loop head.  Loops over concrete ranges / lengths are unrolled by the constant values of the locals they modify;
        a loop driven by an iterator of unknown length is partitioned by its constant boolean locals only (flags such as `found`), which
        keeps "flag still false" apart from "flag already set" without unrolling anything"""
        key = []
        bools_only = False
        if has_next:
            # the loop is driven by an iterator: unroll only if some loop-carried iterator has a concrete length
            conc = False
            for l in mod:
                v = st.cells.get(frame.cell(l))
                if isinstance(v, Iter):
                    if v.ikind == "slice" and isinstance(v.remaining, Int) and v.remaining.is_const():
                        conc = True
                    if v.ikind == "range" and isinstance(v.end, Int) and v.end.is_const() and isinstance(v.start, Int) and v.start.is_const():
                        conc = True
            if not conc:
                bools_only = True
        for l in sorted(mod):
            v = st.cells.get(frame.cell(l))
            if isinstance(v, Iter):
                # a loop driven by an iterator of unknown length is not unrolled
                if v.ikind == "slice" and not (isinstance(v.remaining, Int) and v.remaining.is_const()):
                    bools_only = True
                if v.ikind == "range" and not (isinstance(v.end, Int) and v.end.is_const() and isinstance(v.start, Int) and v.start.is_const()):
                    bools_only = True
                if v.ikind == "opaque":
                    bools_only = True
        for l in sorted(mod):
            v = st.cells.get(frame.cell(l))
            if v is None:
                continue
            if bools_only:
                if isinstance(v, Int) and v.bits == 1 and v.is_const():
                    key.append((l, (), v.lo))
                elif isinstance(v, Iter) and v.cells and v.pos is not None and v.pos <= max(v.cells) + 1:
                    # elements known by position: walk through them one by one (bounded by the number of known positions)
                    key.append((l, ("pos",), v.pos))
                continue
            for p, leaf in int_leaves(v):
                if leaf.is_const():
                    key.append((l, p, leaf.lo))
        return tuple(key)

    def flag_key(self, st, frame, mod):
        """the boolean-flags-only partition key of loop_key, or None when the loop is one that loop_key unrolls"""
        key = []
        unknown = False
        for l in sorted(mod):
            v = st.cells.get(frame.cell(l))
            if isinstance(v, Iter):
                if v.ikind == "opaque" or (v.ikind == "slice" and not (isinstance(v.remaining, Int) and v.remaining.is_const())) or \
                        (v.ikind == "range" and not (isinstance(v.end, Int) and v.end.is_const() and isinstance(v.start, Int) and v.start.is_const())):
                    unknown = True
            elif isinstance(v, Int) and v.bits == 1 and v.is_const():
                key.append((l, (), v.lo))
        return tuple(key) if unknown else None

    def rpo_index(self, body):
        """reverse-postorder number of every block: the worklist takes the smallest first, so a loop is iterated to stability before the code
        after it is (re)analysed"""
        r = self._rpo.get(body.key)
        if r is None:
            seen, order = set(), []
            stack = [(0, iter(body.successors(0)))]
            seen.add(0)
            while stack:
                b, itr = stack[-1]
                adv = False
                for n in itr:
                    if n not in seen:
                        seen.add(n)
                        stack.append((n, iter(body.successors(n))))
                        adv = True
                        break
                if not adv:
                    order.append(b)
                    stack.pop()
            order.reverse()
            r = {b: i for i, b in enumerate(order)}
            self._rpo[body.key] = r
        return r

    def run_body(self, frame, st_in, keep_frame=False, in_place=False):
        """fixpoint over one body from entry state; returns list of exit states (one per tag).
        For promoted bodies (`in_place`), the value of _0 is returned instead."""
        body = frame.body
        self.frame_bodies[frame.uid] = body
        loops = self.loop_info(body)
        thresholds = self.thresholds(body)
        in_states = {}
        visits = defaultdict(int)
        work = _Worklist(self.rpo_index(body))
        exits = {}
        base_tag = st_in.tag

        sm = self.opt.get("merge_on_return", {})
        strip_all = False
        if body.path in sm:
            callers = sm[body.path]
            strip_all = callers is None or (frame.parent is not None and frame.parent.body.name in callers)
        live = self._liveness.get(body.key)
        if live is None:
            live = mirlib.body_liveness(body)
            self._liveness[body.key] = live
        live_in, borrowed = live
        nlocals = len(body.locals)

        def push(bb, s, from_bb=None):
            # drop frame locals that are dead at bb (never address-taken ones: those wait for StorageDead)
            if from_bb is not None and not self.opt.get("keep_dead_locals"):
                li = live_in[bb]
                dead = [k for k in s.cells if k[0] == "L" and k[1] == frame.uid and k[2] not in li and k[2] not in borrowed and k[2] > body.arg_count]
                for k in dead:
                    s.kill_cell(k)
            # maintain loop components of the tag
            tag = s.tag
            if from_bb is not None:
                for h, (scc, mod, _hn) in loops.items():
                    if from_bb in scc and bb not in scc:
                        tag = tuple(x for x in tag if not (isinstance(x, tuple) and len(x) == 4 and x[0] in ("L", "F") and x[1] == frame.uid and x[2] == h))
            if from_bb is not None and tag and body.blocks[from_bb]["term"]["k"] == "switch":
                # how a callee returned keeps its exits apart until the caller has branched on the result — no longer
                # (two branches: the `?` on the Result, then the test of what was inside)
                n_own = len(frame.uid)

                def child(x):
                    return isinstance(x, tuple) and len(x) == 4 and x[0] in ("ret", "ret1") and isinstance(x[1], tuple) and len(x[1]) > n_own and x[1][:n_own] == frame.uid
                if any(child(x) for x in tag):
                    tag = tuple((("ret1",) + x[1:]) if (child(x) and x[0] == "ret") else x for x in tag if not (child(x) and x[0] == "ret1"))
            if from_bb is not None:
                # inside the body of an iterator-driven loop the constant boolean flags it modifies keep the states apart as well, so that
                # what was established on the path that left a flag untouched is not merged with the path that set it before the loop head
                for h, (scc, mod, hn) in loops.items():
                    if hn and bb != h and bb in scc and (body.key, h) not in self.part_overflow:
                        fk = self.flag_key(s, frame, mod)
                        if fk is not None:
                            # next to the head's own key (which may count known positions), not instead of it
                            tag = tuple(x for x in tag if not (isinstance(x, tuple) and len(x) == 4 and x[0] == "F" and x[1] == frame.uid and x[2] == h))
                            if fk:
                                tag = tag + (("F", frame.uid, h, fk),)
            if bb in loops:
                scc, mod, has_next = loops[bb]
                tag = tuple(x for x in tag if not (isinstance(x, tuple) and len(x) == 4 and x[0] in ("L", "F") and x[1] == frame.uid and x[2] == bb))
                if (body.key, bb) not in self.part_overflow:
                    lk = self.loop_key(s, frame, mod, has_next)
                    nkeys = sum(1 for (b2, t2) in in_states if b2 == bb)
                    if nkeys >= PART_CAP:
                        self.part_overflow.add((body.key, bb))
                        self.notes.append("partition cap hit at %s bb%d: falling back to widening" % (body.key, bb))
                    else:
                        tag = tag + (("L", frame.uid, bb, lk),)
            if body.blocks[bb]["term"]["k"] == "return" and (frame.parent is None or _is_result(s.cells.get(frame.cell(0)))):
                # the entry function's exits are kept apart by what they return (Ok / which Err), whatever tags the paths carried
                tag = tuple(x for x in tag if not (isinstance(x, tuple) and len(x) == 4 and x[0] == "ret")) + (("ret", frame.uid, bb, _ret_shape(s.cells.get(frame.cell(0)))),)
            s.tag = tag
            key = (bb, tag)
            old = in_states.get(key)
            if old is None:
                in_states[key] = s
                work.append(key)
                return
            if state_leq(s, old):
                return
            visits[key] += 1
            w = visits[key] > WIDEN_AFTER and (bb in loops)
            r0a, r0b = old.cells.get(frame.cell(0)), s.cells.get(frame.cell(0))
            th = thresholds if visits[key] <= WIDEN_AFTER + 3 else ()
            tmpl = (bb in loops) or (isinstance(r0a, Enum) and isinstance(r0b, Enum) and set(r0a.variants) != set(r0b.variants))
            tv = ()
            if bb in loops:
                tv = self.template_vars(s, frame, loops[bb][1])
            # a constraint whose constant has to be relaxed again on a later visit of a loop head is drifting: relax once, then let it go
            j = join_states(old, s, widen=w, thresholds=th, templates=tmpl, template_vars=tv, relax=not (bb in loops and visits[key] >= 2))
            j.tag = tag
            in_states[key] = j
            if key not in work:
                work.append(key)

        st0 = st_in if in_place else st_in
        push(0, st0)
        while work:
            key = work.popleft()
            bb, tag = key
            st = in_states[key].copy()
            self.steps += 1
            if self.steps > STEP_CAP:
                raise RuntimeError("absint step cap exceeded in %s" % body.key)
            self.reached_blocks[body.key].add(bb)
            blk = body.blocks[bb]
            states = [st]
            try:
                for i, stmt in enumerate(blk["stmts"]):
                    nxt = []
                    for s in states:
                        try:
                            nxt.extend(self.exec_stmt(s, frame, bb, i, stmt))
                        except Infeasible:
                            pass
                    states = nxt
                    if not states:
                        break
            except Infeasible:
                states = []
            for s in states:
                try:
                    succs = self.exec_term(s, frame, bb, blk["term"])
                except Infeasible:
                    succs = []
                for tgt, s2 in succs:
                    if tgt == "return":
                        self.edges[body.key].add((bb, "return"))
                        if self.hooks.get("return"):
                            self.emit("return", frame=frame, st=s2)
                        # strip this frame's loop tags
                        t2 = tuple(x for x in s2.tag if not (isinstance(x, tuple) and len(x) == 4 and x[0] in ("L", "it", "F") and x[1] == frame.uid))
                        # how the callees of this frame returned no longer matters once this frame returns
                        n_own = len(frame.uid)
                        t2 = tuple(x for x in t2 if not (isinstance(x, tuple) and len(x) == 4 and x[0] in ("ret", "ret1") and isinstance(x[1], tuple)
                                                         and len(x[1]) > n_own and x[1][:n_own] == frame.uid))
                        if strip_all:
                            n_uid = len(frame.uid)
                            t2 = tuple(x for x in t2 if not (isinstance(x, tuple) and len(x) >= 2 and isinstance(x[1], tuple) and x[1][:n_uid] == frame.uid))
                        s2.tag = t2
                        old = exits.get(t2)
                        exits[t2] = s2 if old is None else join_states(old, s2, templates=True)
                        if old is not None:
                            exits[t2].tag = t2
                    else:
                        self.edges[body.key].add((bb, tgt))
                        push(tgt, s2, bb)
        outs = list(exits.values())
        if in_place:
            # promoted: merge exits into the caller's state object and return the value
            if not outs:
                return None
            s = outs[0]
            for o in outs[1:]:
                s = join_states(s, o)
            v = s.cells.get(frame.cell(0), Top())
            for k, val in s.cells.items():
                if k not in st_in.cells:
                    st_in.cells[k] = val
            return v
        return outs


def _refs_in(v, out, depth=0):
    if depth > 6:
        return
    if isinstance(v, Ref):
        if v.cell is not None:
            out.add(v.cell)
    elif isinstance(v, Struct):
        for f in v.fields:
            _refs_in(f, out, depth + 1)
    elif isinstance(v, Closure):
        for f in v.captures:
            _refs_in(f, out, depth + 1)
    elif isinstance(v, Enum):
        for fs in v.variants.values():
            for f in fs:
                _refs_in(f, out, depth + 1)
    elif isinstance(v, Arr):
        _refs_in(v.elem, out, depth + 1)
        for c in v.cells.values():
            _refs_in(c, out, depth + 1)
        if v.view_of is not None:
            out.add(v.view_of[0])
    elif isinstance(v, Iter):
        if v.elem is not None:
            _refs_in(v.elem, out, depth + 1)
        if isinstance(v.extra, tuple) and len(v.extra) == 2 and v.extra[1] is not None:
            out.add(v.extra[1][0])


def _referenced_cells(st):
    out = set()
    for k, v in st.cells.items():
        if k[0] == "T":
            continue
        _refs_in(v, out)
    # transitive through temporaries
    work = [c for c in out if c[0] == "T"]
    while work:
        c = work.pop()
        v = st.cells.get(c)
        if v is None:
            continue
        new = set()
        _refs_in(v, new)
        for n in new:
            if n not in out:
                out.add(n)
                if n[0] == "T":
                    work.append(n)
    return out


def _stable_operand(o, body):
    """operand rendering for obligation keys: source names and constants only, no MIR temp numbers"""
    k = o["k"]
    if k in ("copy", "move"):
        p = o["place"]
        nm = body.local_name(p["local"])
        base = nm if nm else "_"
        for e in p["proj"]:
            if e["k"] == "field":
                base += ".%s" % (e.get("name") if e.get("name") is not None else e["i"])
            elif e["k"] == "deref":
                base = "*" + base
            elif e["k"] in ("index", "cindex"):
                base += "[..]"
        return base
    if k == "const":
        if "v" in o:
            return str(o["v"])
        if "cparam" in o:
            return o["cparam"]
    return "_"


def _operands(rv):
    for k in ("op", "a", "b"):
        if k in rv and isinstance(rv[k], dict):
            yield rv[k]
    for o in rv.get("ops", ()):
        yield o


def _defvars(d):
    out = []
    for x in d[1:]:
        if isinstance(x, LinForm):
            out.extend(x.terms.keys())
        elif isinstance(x, tuple) and len(x) == 2 and isinstance(x[1], tuple) and isinstance(x[0], tuple):
            out.append(x)
    return out
