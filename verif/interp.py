"""interp — the μMIR abstract interpreter proper (frames, places, rvalues, fixpoint).

See absint.py for the state and absval.py for values.  std models live in models.py.
"""
import itertools
from collections import defaultdict

from absval import (Arr, BOT, Bot, Closure, Enum, FnItem, Int, Iter, Ref, Struct, Top, UNIT, ISIZE_MAX, int_range, join_val)
from absint import (CORE_ENUMS, Infeasible, State, get_at, set_at, int_leaves, join_states, state_leq, _tighten)
from lin import LinForm
import mirlib

MAX_DEPTH = 12
WIDEN_AFTER = 3
PART_CAP = 160
STEP_CAP = 400000


class Frame:
    def __init__(self, body, uid, cparams, parent=None, tparams=None):
        self.body = body
        self.uid = uid
        self.cparams = cparams or {}
        self.tparams = tparams or {}
        self.parent = parent
        self.depth = 0 if parent is None else parent.depth + 1

    def cell(self, local):
        return ("L", self.uid, local)

    def stack_paths(self):
        f, out = self, []
        while f is not None:
            out.append(f.body.key)
            f = f.parent
        return out


class Obligation:
    __slots__ = ("key", "kind", "fn", "desc", "where", "ok", "reached", "witness", "assumed")

    def __init__(self, key, kind, fn, desc, where):
        self.key, self.kind, self.fn, self.desc, self.where = key, kind, fn, desc, where
        self.ok = True
        self.reached = 0
        self.witness = None
        self.assumed = set()


class Interp:
    def __init__(self, prog, models=None, options=None):
        self.prog = prog
        self.models = models or {}
        self.opt = options or {}
        self.obligations = {}
        self.edges = defaultdict(set)        # body key -> {(bb, succ)}
        self.reached_blocks = defaultdict(set)
        self.hooks = defaultdict(list)
        self.notes = []
        self.unmodelled = defaultdict(int)
        self.steps = 0
        self.part_overflow = set()
        self.assumptions = set()
        self.no_inline = set(self.opt.get("no_inline", ()))
        self.summaries = self.opt.get("summaries", {})
        self._desc_ord = {}
        self._loop_heads = {}
        self._thresholds = {}
        self._liveness = {}
        self._rpo = {}
        self.frame_bodies = {}
        self.quiet_fns = set(self.opt.get("quiet_fns", ()))   # obligations in these fns are not recorded

    # ------------------------------------------------------------------ hooks
    def on(self, event, fn):
        self.hooks[event].append(fn)

    def emit(self, event, **kw):
        for fn in self.hooks.get(event, ()):
            fn(**kw)

    # ------------------------------------------------------------------ obligations
    def site_key(self, frame, bb, kind, desc):
        fn = frame.body.key
        k = (fn, bb, kind, desc)
        if k not in self._desc_ord:
            # ordinal among same (fn, kind, desc), in block order — computed lazily & stably
            same = sorted(b for (f, b, kd, d) in list(self._desc_ord.keys()) if (f, kd, d) == (fn, kind, desc))
            self._desc_ord[k] = None
        return k

    def oblige(self, frame, bb, kind, desc, ok, st=None, span=None, assumed=None):
        if frame.body.key in self.quiet_fns or frame.body.path in self.quiet_fns:
            return
        k = (frame.body.key, bb, kind, desc)
        o = self.obligations.get(k)
        if o is None:
            o = Obligation(k, kind, frame.body.key, desc, str(span) if span else "?")
            self.obligations[k] = o
        o.reached += 1
        if assumed:
            o.assumed.add(assumed)
        if not ok:
            if o.ok:
                o.witness = {"stack": frame.stack_paths(), "tag": repr(st.tag) if st else None,
                             "state": self.describe(st, frame) if st else None}
            o.ok = False

    def describe(self, st, frame, limit=40):
        out = {}
        n = 0
        for i, l in enumerate(frame.body.locals):
            nm = l.get("name")
            if not nm:
                continue
            v = st.cells.get(frame.cell(i))
            if v is None:
                continue
            out[nm] = repr(v)[:160]
            n += 1
            if n >= limit:
                break
        cons = [repr(c) + " <= 0" for c in list(st.cons.le)[:12]] + [repr(c) + " == 0" for c in list(st.cons.eq)[:12]]
        out["#cons"] = cons
        return out

    # ------------------------------------------------------------------ types -> top values
    def adt_info(self, path):
        p = mirlib.strip_generics(path)
        a = self.prog.adts.get(p)
        if a is None and "::" in p:
            # a type of another analysed crate is recorded under its crate-relative path
            head, rest = p.split("::", 1)
            if head in self.prog.crates:
                a = self.prog.adts.get(rest)
        return a

    def subst_ty(self, ty, targs):
        """substitute type params (by index parsed from 'T/#n') using targs list"""
        if not ty or not targs:
            return ty
        if ty.get("k") == "param":
            s = ty.get("s", "")
            if "#" in s:
                try:
                    idx = int(s.split("#")[-1])
                    if idx < len(targs) and targs[idx].get("k") not in ("lifetime",):
                        return targs[idx]
                except ValueError:
                    pass
            return ty
        return ty

    def top_of(self, ty, st, name, depth=0, targs=None):
        """build the most general abstract value of μMIR type `ty`; allocates heap cells for
        reference targets under deterministic names derived from `name`"""
        if ty is None or depth > 6:
            return Top(ty)
        ty = self.subst_ty(ty, targs)
        k = ty.get("k")
        if k == "bool":
            return Int.boolean()
        if k in ("int", "uint"):
            return Int.top(ty["bits"], k == "int")
        if k == "char":
            return Int(0, 0x10FFFF, 32, False)
        if k == "tuple":
            if not ty["of"]:
                return UNIT
            return Struct("tuple", [self.top_of(t, st, name + (i,), depth + 1, targs) for i, t in enumerate(ty["of"])])
        if k in ("ref", "ptr"):
            to = self.subst_ty(ty["to"], targs)
            cell = ("H",) + tuple(name)
            if cell not in st.cells:
                st.cells[cell] = self.top_of_unsized(to, st, name + ("*",), depth + 1, targs)
            return Ref(cell, (), ty.get("mut", False))
        if k in ("slice", "str", "array"):
            return self.top_of_unsized(ty, st, name, depth, targs)
        if k == "adt":
            path = mirlib.strip_generics(ty["path"])
            args = [a for a in ty.get("args", [])]
            targs2 = [self.subst_ty(a, targs) if isinstance(a, dict) else a for a in args]
            if path in CORE_ENUMS:
                names = CORE_ENUMS[path]
                tas = [a for a in targs2 if a.get("k") != "lifetime"]
                if path == "std::option::Option":
                    return Enum(path, {0: (), 1: (self.top_of(tas[0] if tas else None, st, name + ("Some",), depth + 1),)})
                if path == "std::result::Result":
                    return Enum(path, {0: (self.top_of(tas[0] if tas else None, st, name + ("Ok",), depth + 1),),
                                       1: (self.top_of(tas[1] if len(tas) > 1 else None, st, name + ("Err",), depth + 1),)})
                if path == "std::ops::ControlFlow":
                    return Enum(path, {0: (self.top_of(tas[1] if len(tas) > 1 else None, st, name + ("C",), depth + 1),),
                                       1: (self.top_of(tas[0] if tas else None, st, name + ("B",), depth + 1),)})
                return Enum(path, {i: () for i in range(len(names))})
            if path == "std::boxed::Box":
                tas = [a for a in targs2 if a.get("k") != "lifetime"]
                inner = tas[0] if tas else None
                if inner and inner.get("k") in ("slice", "str", "array"):
                    v = self.top_of_unsized(inner, st, name, depth, None)
                    return Arr(v.len, v.elem, v.cells, "box")
                return Top(ty)
            if path in ("std::vec::Vec", "std::collections::VecDeque"):
                tas = [a for a in targs2 if a.get("k") != "lifetime"]
                elem = self.top_of(tas[0] if tas else None, st, name + ("e",), depth + 2)
                return Arr(Int(0, ISIZE_MAX, 64, False), elem, None, "vec" if path.endswith("Vec") else "deque")
            if path == "std::string::String":
                return Arr(Int(0, ISIZE_MAX, 64, False), Int.top(8, False), None, "vec")
            info = self.adt_info(path)
            if info is None:
                return Top(ty)
            if info["is_enum"]:
                vs = {}
                for i, v in enumerate(info["variants"]):
                    vs[i] = tuple(self.top_of(f["ty"], st, name + (v["name"], j), depth + 1, targs2) for j, f in enumerate(v["fields"]))
                return Enum(path, vs)
            v = info["variants"][0]
            return Struct(path, [self.top_of(f["ty"], st, name + (f["name"],), depth + 1, targs2) for f in v["fields"]])
        return Top(ty)

    def top_of_unsized(self, ty, st, name, depth, targs):
        k = ty.get("k") if ty else None
        if k == "slice":
            return Arr(Int(0, ISIZE_MAX, 64, False), self.top_of(ty["of"], st, name + ("e",), depth + 1, targs))
        if k == "str":
            return Arr(Int(0, ISIZE_MAX, 64, False), Int.top(8, False), None, "str")
        if k == "array":
            ln = ty["len"]
            n = ln.get("v") if ln.get("k") == "cval" else None
            length = Int.const(n, 64, False) if n is not None else Int(0, ISIZE_MAX, 64, False)
            return Arr(length, self.top_of(ty["of"], st, name + ("e",), depth + 1, targs), None, "array")
        return self.top_of(ty, st, name, depth, targs)

    # ------------------------------------------------------------------ enum helpers
    def enum_variant_index_for_discr(self, path, discr):
        info = self.adt_info(path)
        if info is not None and info["is_enum"]:
            for i, v in enumerate(info["variants"]):
                if int(v["discr"]) == discr:
                    return i
            return None
        return discr

    def enum_discr_of(self, path, idx):
        info = self.adt_info(path)
        if info is not None and info["is_enum"]:
            return int(info["variants"][idx]["discr"])
        return idx

    # ------------------------------------------------------------------ places
    def resolve(self, st, frame, place, for_write=False):
        """-> (cell, path) location of a μMIR place, or None if it goes through an unknown pointer"""
        cell = frame.cell(place["local"])
        path = ()
        for e in place["proj"]:
            k = e["k"]
            if k == "deref":
                v = get_at(st.cells.get(cell, Top()), path)
                if isinstance(v, Ref) and v.cell is not None:
                    cell, path = v.cell, v.path
                elif isinstance(v, Arr) and v.container == "box":
                    pass  # Box<[T]> stored inline: deref is the identity
                else:
                    return None
            elif k == "field":
                v = get_at(st.cells.get(cell, Top()), path)
                if isinstance(v, Ref) or (isinstance(v, Arr) and v.container in ("box",)):
                    # Box.0 / Unique.pointer / NonNull.pointer wrappers
                    continue
                path = path + (e["i"],)
            elif k == "downcast":
                path = path + (("v", e["i"]),)
            elif k == "index":
                iv = st.cells.get(frame.cell(e["local"]))
                if isinstance(iv, Int) and iv.is_const() and 0 <= iv.lo < 4096:
                    path = path + (("c", iv.lo),)
                    self._materialize_cell(st, cell, path)
                else:
                    path = path + ("elem",)
            elif k == "cindex":
                if not e["from_end"]:
                    path = path + (("c", e["offset"]),)
                    self._materialize_cell(st, cell, path)
                else:
                    path = path + ("elem",)
            else:
                path = path + ("elem",)
        return cell, path

    def _materialize_cell(self, st, cell, path):
        v = st.cells.get(cell)
        if v is None:
            return
        arr = get_at(v, path[:-1])
        if isinstance(arr, Arr) and path[-1][1] not in arr.cells:
            st.cells[cell] = set_at(v, path, arr.elem)

    def read_loc(self, st, loc):
        if loc is None:
            return Top()
        cell, path = loc
        v = st.cells.get(cell)
        if v is None:
            return Top()
        return get_at(v, path)

    def read_place(self, st, frame, place):
        loc = self.resolve(st, frame, place)
        v = self.read_loc(st, loc)
        if isinstance(v, (Top,)) and place.get("ty"):
            # give unknown scalars their type's range so that arithmetic stays typed
            t = place["ty"]
            if t.get("k") in ("int", "uint", "bool", "char"):
                v = self.top_of(t, st, ())
        if loc is not None and "elem" in loc[1]:
            loc = None   # summary element: no identity
        return v, loc

    def is_tracked(self, loc):
        """user-declared `mut` integer locals keep their identity in constraints even while they are constant,
        so that relations established early in a loop (i <= len while i == 0) survive the first joins"""
        if loc is None or loc[1] != () or loc[0][0] != "L":
            return False
        body = self.frame_bodies.get(loc[0][1])
        if body is None:
            return False
        l = body.locals[loc[0][2]]
        return bool(l.get("mut")) and l.get("name") is not None and loc[0][2] > body.arg_count

    def lin_of(self, st, v, loc):
        if isinstance(v, Int):
            if v.is_const():
                if v.bits > 8 and self.is_tracked(loc):
                    return LinForm.var(loc)
                if loc is not None and st.defs:
                    d = st.defs.get(loc)
                    if d is not None and d[0] == "lin":
                        return d[1]
                return LinForm.constant(v.lo)
            if loc is not None:
                return LinForm.var(loc)
        return None

    def write_loc(self, st, loc, val, lin=None, src_loc=None):
        """strong update of location with value; records equalities for scalar leaves"""
        if loc is None:
            return
        cell, path = loc
        if "elem" in path:
            # weak update
            old = st.cells.get(cell)
            if old is not None:
                st.cells[cell] = set_at(old, path, val)
            if self.hooks.get("elem_write"):
                self.emit("elem_write", st=st, loc=loc, val=val)
            return
        remember = ()
        if cell[0] == "H" and isinstance(val, Int):
            # invariants over object fields (pos <= filled ...) should stay explicit across an overwrite when they still hold
            remember = [c for c in st.cons.le if loc in c.terms and len(c.terms) == 2 and abs(c.const) <= (1 << 20)]
        st.kill_loc(cell, path)
        old = st.cells.get(cell)
        if not path:
            st.cells[cell] = val
        else:
            if old is None:
                old = Top()
            st.cells[cell] = set_at(old, path, val)
        if src_loc is not None and src_loc != loc:
            st.relocate_guards(src_loc, loc)
        if remember:
            st.cells[cell] = set_at(st.cells.get(cell, Top()), path, val) if path else val
            for c in remember:
                if c not in st.cons.le and st.entails_le(c):
                    st.cons.le.add(c)
        if isinstance(val, Int):
            if lin is not None and not lin.is_const() and not val.is_const():
                if loc not in lin.terms:
                    eqf = LinForm.var(loc) - lin
                    st.cons.add_eq(eqf)
                    st.propagate(seed=eqf, eq=True, rounds=2)
            elif lin is not None and not lin.is_const() and val.is_const() and loc not in lin.terms and "elem" not in loc[1]:
                # a constant copy of a tracked variable: remember whose value it is
                st.defs[loc] = ("lin", lin)
        elif src_loc is not None and src_loc != loc:
            scell, spath = src_loc
            for p, leaf in int_leaves(val):
                if not leaf.is_const():
                    a = (cell, path + p)
                    b = (scell, spath + p)
                    if st.leaf(b) is not None:
                        st.cons.add_eq(LinForm.var(a) - LinForm.var(b))

    def write_place(self, st, frame, place, val, lin=None, src_loc=None):
        loc = self.resolve(st, frame, place, for_write=True)
        if loc is None:
            return
        self.write_loc(st, loc, val, lin, src_loc)

    # ------------------------------------------------------------------ operands
    def eval_const(self, st, frame, o):
        ty = o.get("ty")
        if "fn" in o:
            return FnItem(o["fn"]), None
        if "cparam" in o:
            nm = o["cparam"]
            if nm in frame.cparams:
                k = ty.get("k")
                return Int.const(frame.cparams[nm], ty.get("bits", 64), k == "int"), None
            return self.top_of(ty, st, ("cparam", nm)), None
        if "v" in o:
            k = ty.get("k")
            v = int(o["v"])
            if k == "bool":
                return Int.const(v, 1, False), None
            if k == "char":
                return Int.const(v, 32, False), None
            return Int.const(v, ty.get("bits", 64), k == "int"), None
        if "promoted" in o:
            pb = self.prog.promoted(mirlib.strip_generics(o.get("def", frame.body.path)), o["promoted"])
            if pb is None:
                pb = self.prog.promoted(frame.body.path, o["promoted"])
            if pb is not None:
                pf = Frame(pb, frame.uid + (("prom", o["promoted"]),), frame.cparams, frame)
                outs = self.run_body(pf, st_in=st, keep_frame=True, in_place=True)
                if outs:
                    return outs, None
            return self.top_of(ty, st, ("prom", frame.uid, o["promoted"])), None
        if ty and ty.get("k") == "tuple" and not ty["of"]:
            return UNIT, None
        if ty and ty.get("k") == "ref" and ty["to"].get("k") == "str":
            # string literal: contents irrelevant
            s = o.get("s", "")
            cell = ("H", "strlit", hash(s) & 0xFFFFFF)
            if cell not in st.cells:
                st.cells[cell] = Arr(Int(0, ISIZE_MAX, 64, False), Int.top(8, False), None, "str")
            return Ref(cell, ()), None
        return self.top_of(ty, st, ("const", frame.uid, o.get("s", "?")[:30])), None

    def eval_operand(self, st, frame, o):
        """-> (value, loc or None)"""
        k = o["k"]
        if k in ("copy", "move"):
            v, loc = self.read_place(st, frame, o["place"])
            # copying a Box aliases it
            if k == "copy" and isinstance(v, Arr) and v.container == "box" and loc is not None:
                return Ref(loc[0], loc[1], True), None
            return v, loc
        if k == "const":
            return self.eval_const(st, frame, o)
        return Top(), None

    def operand_int(self, st, frame, o):
        """-> (Int value, LinForm or None)"""
        v, loc = self.eval_operand(st, frame, o)
        if not isinstance(v, Int):
            return None, None
        return v, self.lin_of(st, v, loc)

    # ------------------------------------------------------------------ integer ops
    def fit(self, lo, hi, bits, signed):
        tlo, thi = int_range(bits, signed) if bits > 1 else (0, 1)
        return tlo <= lo and hi <= thi

    def arith(self, st, op, a, la, b, lb, bits, signed):
        """exact result of a op b as (Int over Z (not yet range-checked), lin or None)"""
        if op == "Add":
            lo, hi = a.lo + b.lo, a.hi + b.hi
            lin = (la + lb) if (la is not None and lb is not None) else None
            tz = min(a.tz, b.tz)
        elif op == "Sub":
            lo, hi = a.lo - b.hi, a.hi - b.lo
            lin = (la - lb) if (la is not None and lb is not None) else None
            tz = min(a.tz, b.tz)
        elif op == "Mul":
            cands = [a.lo * b.lo, a.lo * b.hi, a.hi * b.lo, a.hi * b.hi]
            lo, hi = min(cands), max(cands)
            lin = None
            if b.is_const() and la is not None:
                lin = la.scale(b.lo)
            elif a.is_const() and lb is not None:
                lin = lb.scale(a.lo)
            tz = min(64, a.tz + b.tz)
        else:
            raise ValueError(op)
        if lin is not None:
            l2, h2 = st.lin_bounds(lin)
            if l2 is not None and l2 > lo:
                lo = l2
            if h2 is not None and h2 < hi:
                hi = h2
        return lo, hi, lin, tz

    def mk_int(self, lo, hi, bits, signed, tz=0):
        if lo == hi:
            return Int.const(lo, bits, signed)
        if tz and tz < 64:
            m = 1 << tz
            lo2 = -((-lo) // m) * m
            hi2 = (hi // m) * m
            if lo2 <= hi2:
                lo, hi = lo2, hi2
        return Int(lo, hi, bits, signed, tz if tz < 64 else 0)

    def binop(self, st, op, a, la, b, lb, rty):
        """non-overflow-checked binary op -> (value, lin, defs-entry or None)"""
        k = rty.get("k")
        if op in ("Eq", "Ne", "Lt", "Le", "Gt", "Ge"):
            return self.compare(st, op, a, la, b, lb)
        bits = rty.get("bits", 64) if k in ("int", "uint") else (1 if k == "bool" else 64)
        signed = (k == "int")
        tlo, thi = int_range(bits, signed) if bits > 1 else (0, 1)
        if op in ("Add", "Sub", "Mul", "AddUnchecked", "SubUnchecked", "MulUnchecked"):
            op0 = op.replace("Unchecked", "")
            lo, hi, lin, tz = self.arith(st, op0, a, la, b, lb, bits, signed)
            if tlo <= lo and hi <= thi:
                return self.mk_int(lo, hi, bits, signed, tz), lin, None
            return self.mk_int(tlo, thi, bits, signed, tz if not signed else 0), None, None
        if op in ("Shl", "ShlUnchecked"):
            if b.is_const():
                sh = b.lo % bits if bits > 1 else 0
                if a.is_const():
                    v = (a.lo << sh) & ((1 << bits) - 1)
                    if signed and v > thi:
                        v -= (1 << bits)
                    return Int.const(v, bits, signed), None, None
                lo, hi = a.lo << sh, a.hi << sh
                if tlo <= lo and hi <= thi:
                    lin = la.scale(1 << sh) if la is not None else None
                    return self.mk_int(lo, hi, bits, signed, min(64, a.tz + sh)), lin, None
                return self.mk_int(tlo, thi, bits, signed, sh), None, None
            if a.is_const() and a.lo >= 0 and b.lo >= 0 and b.hi < bits:
                lo, hi = a.lo << b.lo, a.lo << b.hi
                if hi <= thi:
                    return self.mk_int(lo, hi, bits, signed, 0), None, None
            return Int.top(bits, signed), None, None
        if op in ("Shr", "ShrUnchecked"):
            if b.is_const():
                sh = b.lo % bits if bits > 1 else 0
                return self.mk_int(a.lo >> sh, a.hi >> sh, bits, signed), None, None
            if a.lo >= 0 and b.lo >= 0:
                return self.mk_int(a.lo >> min(b.hi, bits - 1), a.hi >> b.lo, bits, signed), None, None
            return Int.top(bits, signed), None, None
        if op in ("BitAnd", "BitOr", "BitXor"):
            if a.is_const() and b.is_const():
                mask = (1 << bits) - 1
                x, y = a.lo & mask, b.lo & mask
                v = {"BitAnd": x & y, "BitOr": x | y, "BitXor": x ^ y}[op]
                if signed and v > thi:
                    v -= (1 << bits)
                return Int.const(v, bits, signed), None, None
            # x op c with c a low-bit mask (2^k-1) or a sign-extension constant (-2^k), x within one 2^k block
            for (x, cst) in ((a, b), (b, a)):
                if cst.is_const() and x.lo >= 0:
                    cv = cst.lo
                    if op == "BitAnd" and cv >= 0 and (cv & (cv + 1)) == 0:
                        k = cv.bit_length()
                        if (x.lo >> k) == (x.hi >> k):
                            return self.mk_int(x.lo & cv, x.hi & cv, bits, signed), None, None
                    if op == "BitOr" and signed and cv < 0 and ((-cv) & ((-cv) - 1)) == 0:
                        k = (-cv).bit_length() - 1
                        mk = (1 << k) - 1
                        if (x.lo >> k) == (x.hi >> k):
                            return self.mk_int(cv + (x.lo & mk), cv + (x.hi & mk), bits, signed), None, None
            if op == "BitAnd":
                for (x, cst) in ((a, b), (b, a)):
                    if cst.is_const() and x.lo >= 0 and cst.lo > 0 and (cst.lo & (cst.lo - 1)) == 0:
                        j = cst.lo.bit_length() - 1
                        if (x.lo >> j) == (x.hi >> j):
                            return Int.const(((x.lo >> j) & 1) << j, bits, signed), None, None
                if a.lo >= 0 and b.lo >= 0:
                    return self.mk_int(0, min(a.hi, b.hi), bits, signed, max(a.tz, b.tz)), None, None
                if a.lo >= 0:
                    return self.mk_int(0, a.hi, bits, signed), None, None
                if b.lo >= 0:
                    return self.mk_int(0, b.hi, bits, signed), None, None
                return Int.top(bits, signed), None, None
            if a.lo >= 0 and b.lo >= 0:
                top = (1 << max(a.hi.bit_length(), b.hi.bit_length())) - 1
                lo = max(a.lo, b.lo) if op == "BitOr" else 0
                # disjoint bits: or == add
                lin = None
                if op == "BitOr" and la is not None and lb is not None:
                    if a.tz >= b.hi.bit_length() or b.tz >= a.hi.bit_length():
                        lin = la + lb
                        return self.mk_int(a.lo + b.lo, a.hi + b.hi, bits, signed, min(a.tz, b.tz)), lin, None
                return self.mk_int(lo, min(top, thi), bits, signed, min(a.tz, b.tz)), None, None
            if op == "BitOr" and signed:
                neg = [x for x in (a, b) if x.hi < 0]
                if neg:
                    return self.mk_int(max(x.lo for x in neg), -1, bits, signed), None, None
            return Int.top(bits, signed), None, None
        if op in ("Div", "Rem"):
            if b.is_const() and b.lo > 0 and a.lo >= 0:
                c = b.lo
                if op == "Div":
                    return self.mk_int(a.lo // c, a.hi // c, bits, signed), None, None
                if a.is_const():
                    return Int.const(a.lo % c, bits, signed), None, None
                if a.hi - a.lo < c and (a.lo % c) <= (a.hi % c):
                    return self.mk_int(a.lo % c, a.hi % c, bits, signed), None, None
                return self.mk_int(0, min(a.hi, c - 1), bits, signed), None, None
            return Int.top(bits, signed), None, None
        if op == "Offset":
            return Top(), None, None
        return Int.top(bits, signed), None, None

    def compare(self, st, op, a, la, b, lb):
        """-> (bool Int, None, def)"""
        if la is None:
            la = None
        res = None
        d = None
        if la is not None and lb is not None:
            diff = la - lb           # a - b
            d = ("cmp", op, la, lb)
            lo, hi = st.lin_bounds(diff)

            def le0(lf):
                return st.entails_le(lf)
            if op == "Lt":
                if (hi is not None and hi < 0) or le0(diff + 1):
                    res = 1
                elif (lo is not None and lo >= 0) or le0(-diff):
                    res = 0
            elif op == "Le":
                if (hi is not None and hi <= 0) or le0(diff):
                    res = 1
                elif (lo is not None and lo > 0) or le0((-diff) + 1):
                    res = 0
            elif op == "Gt":
                if (lo is not None and lo > 0) or le0((-diff) + 1):
                    res = 1
                elif (hi is not None and hi <= 0) or le0(diff):
                    res = 0
            elif op == "Ge":
                if (lo is not None and lo >= 0) or le0(-diff):
                    res = 1
                elif (hi is not None and hi < 0) or le0(diff + 1):
                    res = 0
            elif op in ("Eq", "Ne"):
                eq = None
                if lo is not None and hi is not None and lo == hi == 0:
                    eq = True
                elif (lo is not None and lo > 0) or (hi is not None and hi < 0):
                    eq = False
                elif le0(diff + 1) or le0((-diff) + 1):
                    eq = False
                elif le0(diff) and le0(-diff):
                    eq = True
                if eq is not None:
                    res = int(eq) if op == "Eq" else int(not eq)
        else:
            # interval-only
            if op == "Lt":
                res = 1 if a.hi < b.lo else (0 if a.lo >= b.hi else None)
            elif op == "Le":
                res = 1 if a.hi <= b.lo else (0 if a.lo > b.hi else None)
            elif op == "Gt":
                res = 1 if a.lo > b.hi else (0 if a.hi <= b.lo else None)
            elif op == "Ge":
                res = 1 if a.lo >= b.hi else (0 if a.hi < b.lo else None)
            elif op in ("Eq", "Ne"):
                eq = None
                if a.is_const() and b.is_const() and a.lo == b.lo:
                    eq = True
                elif a.hi < b.lo or a.lo > b.hi:
                    eq = False
                if eq is not None:
                    res = int(eq) if op == "Eq" else int(not eq)
        if res is not None:
            return Int.const(res, 1, False), None, None
        return Int.boolean(), None, d

    # ------------------------------------------------------------------ assume
    def assume_cmp(self, st, op, la, lb, truth):
        """refine st with (la op lb) == truth"""
        neg = {"Lt": "Ge", "Le": "Gt", "Gt": "Le", "Ge": "Lt", "Eq": "Ne", "Ne": "Eq"}
        if not truth:
            op = neg[op]
        diff = la - lb
        force = any(self.is_tracked(v) for v in diff.terms)
        if op == "Lt":
            st.add_le(diff + 1, force)
        elif op == "Le":
            st.add_le(diff, force)
        elif op == "Gt":
            st.add_le((-diff) + 1, force)
        elif op == "Ge":
            st.add_le(-diff, force)
        elif op == "Eq":
            if len(diff.terms) >= 1 and (st.entails_le(diff + 1) or st.entails_le((-diff) + 1)):
                raise Infeasible()
            st.add_eq(diff)
        elif op == "Ne":
            sv = diff.single_var()
            if sv is not None:
                v, c, k = sv
                # c*v + k != 0
                if k % c == 0:
                    bad = -k // c
                    leaf = st.leaf(v)
                    if leaf is not None:
                        if leaf.lo == bad == leaf.hi:
                            raise Infeasible()
                        if leaf.lo == bad:
                            st.set_leaf(v, _tighten(leaf, bad + 1, leaf.hi))
                            st.propagate(seed=LinForm({v: -1}, bad + 1))
                        elif leaf.hi == bad:
                            st.set_leaf(v, _tighten(leaf, leaf.lo, bad - 1))
                            st.propagate(seed=LinForm({v: 1}, -(bad - 1)))
            else:
                lo, hi = st.lin_bounds(diff)
                if lo == 0 and hi == 0:
                    raise Infeasible()
                le, ge = st.entails_le(diff), st.entails_le(-diff)
                if le and ge:
                    raise Infeasible()
                if le:
                    st.add_le(diff + 1)       # a <= b and a != b  =>  a < b
                elif ge:
                    st.add_le((-diff) + 1)

    def assume_var(self, st, var, value, equal=True):
        """refine: scalar at `var` == value (or != value), following definitions"""
        leaf = st.leaf(var)
        if leaf is not None:
            if equal:
                if value < leaf.lo or value > leaf.hi:
                    raise Infeasible()
                st.set_leaf(var, Int.const(value, leaf.bits, leaf.signed))
                st.propagate(seed=LinForm.var(var) - value, eq=True)
                st.apply_guard(var, value)
            else:
                if leaf.is_const() and leaf.lo == value:
                    raise Infeasible()
                if leaf.lo == value:
                    st.set_leaf(var, _tighten(leaf, value + 1, leaf.hi))
                    st.propagate(seed=LinForm({var: -1}, value + 1))
                elif leaf.hi == value:
                    st.set_leaf(var, _tighten(leaf, leaf.lo, value - 1))
                    st.propagate(seed=LinForm({var: 1}, -(value - 1)))
                l2 = st.leaf(var)
                if l2 is not None and l2.is_const() and not leaf.is_const():
                    st.apply_guard(var, l2.lo)
        d = st.defs.get(var)
        if d is None:
            return
        if d[0] == "cmp":
            if leaf is not None and leaf.bits == 1 or True:
                if equal and value in (0, 1):
                    self.assume_cmp(st, d[1], d[2], d[3], bool(value))
                elif (not equal) and value in (0, 1):
                    self.assume_cmp(st, d[1], d[2], d[3], not bool(value))
        elif d[0] == "not":
            if value in (0, 1):
                self.assume_var(st, d[1], 1 - value, equal)
        elif d[0] == "discr":
            loc = d[1]
            ev = self.read_loc(st, loc)
            if isinstance(ev, Enum):
                idx = self.enum_variant_index_for_discr(ev.path, value)
                if equal:
                    nv = ev.only(idx) if idx is not None else BOT
                else:
                    nv = ev.without({idx}) if idx is not None else ev
                if nv.is_bot():
                    raise Infeasible()
                cell, path = loc
                st.cells[cell] = set_at(st.cells[cell], path, nv)
                if isinstance(nv, Enum) and len(nv.variants) == 1 and len(ev.variants) > 1:
                    st.apply_guard(loc, ("v", next(iter(nv.variants))))
        elif d[0] == "isvar":
            # boolean "enum at loc is (polarity) variant idx"
            if value in (0, 1):
                truth = bool(value) if equal else not bool(value)
                want = truth == d[3]
                loc = d[1]
                ev = self.read_loc(st, loc)
                if isinstance(ev, Enum):
                    nv = ev.only(d[2]) if want else ev.without({d[2]})
                    if nv.is_bot():
                        raise Infeasible()
                    cell, path = loc
                    st.cells[cell] = set_at(st.cells[cell], path, nv)
                    if isinstance(nv, Enum) and len(nv.variants) == 1 and len(ev.variants) > 1:
                        st.apply_guard(loc, ("v", next(iter(nv.variants))))
