"""absrun — convenience layer: build an engine and analyse one function from a generic entry state."""
from absint import State
from engine import Engine, Frame
import models
import models2  # noqa: F401  (registers models)


def make_engine(prog, **options):
    m = dict(models.MODELS)
    m["#prefix"] = list(models.PREFIX)
    return Engine(prog, m, options)


def analyze(eng, body, cparams=None, setup=None, tag=()):
    """analyse `body` with every argument at ⊤ of its type; `setup(eng, st, frame)` may refine the entry state.
    -> (exit states, frame)"""
    st = State()
    st.tag = tag
    frame = Frame(body, ("root", body.key) + tuple(sorted((cparams or {}).items())), dict(cparams or {}))
    for i in range(1, body.arg_count + 1):
        ty = body.locals[i]["ty"]
        v = eng.top_of(ty, st, ("arg", i))
        st.cells[frame.cell(i)] = v
    if setup is not None:
        setup(eng, st, frame)
    exits = eng.run_body(frame, st)
    return exits, frame


def obligation_table(eng):
    rows = []
    for k, o in sorted(eng.obligations.items(), key=lambda kv: (kv[0][0], kv[0][1], kv[0][2], kv[0][3])):
        rows.append(o)
    return rows
