import os
"""absint — forward abstract interpreter over μMIR (part 1: state, places, rvalues).

Domains: intervals with known trailing zeros on scalar leaves, variant sets for enums,
points-to for references, summarised containers, and a polyhedra-lite constraint store
(lin.Cons) over the locations of scalar leaves.  Trace partitioning by an explicit tag and,
at loop heads, by the concrete loop-carried integers (which unrolls bounded loops).
"""
import sys
from collections import defaultdict

from absval import (AVal, Arr, BOT, Bot, Closure, Enum, FnItem, Int, Iter, Ref, Struct, Top, UNIT, ISIZE_MAX,
                    int_range, join_val, leq_val, widen_val)
from lin import Cons, LinForm, join_cons, sup, inf
import mirlib

sys.setrecursionlimit(10000)

CORE_ENUMS = {
    "std::option::Option": ["None", "Some"],
    "std::result::Result": ["Ok", "Err"],
    "std::ops::ControlFlow": ["Continue", "Break"],
    "std::cmp::Ordering": ["Less", "Equal", "Greater"],
}
CORE_ENUM_DISCR = {"std::cmp::Ordering": {0: -1, 1: 0, 2: 1}}


class Infeasible(Exception):
    pass


# ----------------------------------------------------------------------------
# tree access
# ----------------------------------------------------------------------------
def get_at(val, path):
    for step in path:
        if val is None or isinstance(val, (Top, Bot)):
            return Top()
        if isinstance(step, int):
            if isinstance(val, Struct):
                val = val.fields[step] if step < len(val.fields) else Top()
            elif isinstance(val, Closure):
                val = val.captures[step] if step < len(val.captures) else Top()
            elif isinstance(val, Ref):
                # fields of Box / Unique / NonNull wrappers: same pointer
                val = val
            elif isinstance(val, Arr) and val.container in ("vec", "deque", "box"):
                val = val
            else:
                return Top()
        elif step == "len":
            val = val.len if isinstance(val, Arr) else Top()
        elif step == "elem":
            if isinstance(val, Arr):
                # an element at an unknown position: the summary, or any of the elements known by position
                e = val.elem
                for x in (val.cells or {}).values():
                    e = join_val(e, x)
                val = e
            else:
                val = Top()
        elif isinstance(step, tuple) and step[0] == "c":
            if isinstance(val, Arr):
                val = val.cells.get(step[1], val.elem)
            else:
                return Top()
        elif isinstance(step, tuple) and step[0] == "v":
            if isinstance(val, Enum):
                f = val.variants.get(step[1])
                if f is None:
                    return BOT
                val = Struct("#variant", f)
            else:
                return Top()
        elif step in ("rem", "start", "end", "ielem"):
            if isinstance(val, Iter):
                val = {"rem": val.remaining, "start": val.start, "end": val.end, "ielem": val.elem}[step]
                if val is None:
                    return Top()
            else:
                return Top()
        else:
            return Top()
    return val


def restrict_summary(val, path, keep):
    """the enum at `path` (which passes through a container's summary element) is known to be one of `keep` for *every* element"""
    if not path:
        if isinstance(val, Enum):
            k2 = {i: p for i, p in val.variants.items() if i in keep}
            return Enum(val.path, k2) if k2 else val
        return val
    step, rest = path[0], path[1:]
    if step == "elem" and isinstance(val, Arr):
        return Arr(val.len, restrict_summary(val.elem, rest, keep), {k: restrict_summary(c, rest, keep) for k, c in (val.cells or {}).items()}, val.container, val.view_of)
    if isinstance(step, int) and isinstance(val, Struct) and step < len(val.fields):
        return val.with_field(step, restrict_summary(val.fields[step], rest, keep))
    if isinstance(step, int) and isinstance(val, (Ref, Arr)):
        return restrict_summary(val, rest, keep) if rest else val
    if isinstance(step, tuple) and step[0] == "v" and isinstance(val, Enum) and step[1] in val.variants:
        fs = list(val.variants[step[1]])
        if rest and isinstance(rest[0], int) and rest[0] < len(fs):
            fs[rest[0]] = restrict_summary(fs[rest[0]], rest[1:], keep)
            nv = dict(val.variants)
            nv[step[1]] = tuple(fs)
            return Enum(val.path, nv)
    return val


def set_at(val, path, new):
    if not path:
        return new
    step, rest = path[0], path[1:]
    if isinstance(step, int):
        if isinstance(val, Struct):
            cur = val.fields[step] if step < len(val.fields) else Top()
            return val.with_field(step, set_at(cur, rest, new))
        if isinstance(val, Closure):
            caps = list(val.captures)
            caps[step] = set_at(caps[step], rest, new)
            return Closure(val.def_path, caps, val.env)
        if isinstance(val, (Ref, Arr)):
            return set_at(val, rest, new) if rest else new
        return val  # Top stays Top (sound)
    if step == "len":
        if isinstance(val, Arr):
            return val.with_len(set_at(val.len, rest, new))
        return val
    if step == "elem":
        if isinstance(val, Arr):
            # weak update of the summary and of every cell
            nv = set_at(val.elem, rest, new)
            elem = join_val(val.elem, nv)
            cells = {k: join_val(c, set_at(c, rest, new)) for k, c in val.cells.items()}
            return Arr(val.len, elem, cells, val.container, val.view_of)
        return val
    if isinstance(step, tuple) and step[0] == "c":
        if isinstance(val, Arr):
            cells = dict(val.cells)
            cur = cells.get(step[1], val.elem)
            cells[step[1]] = set_at(cur, rest, new)
            return Arr(val.len, val.elem, cells, val.container, val.view_of)
        return val
    if isinstance(step, tuple) and step[0] == "v":
        if isinstance(val, Enum):
            f = val.variants.get(step[1])
            if f is None:
                return val
            s = set_at(Struct("#variant", f), rest, new)
            v = dict(val.variants)
            v[step[1]] = tuple(s.fields)
            return Enum(val.path, v)
        return val
    if step in ("rem", "start", "end", "ielem"):
        if isinstance(val, Iter):
            d = {"rem": val.remaining, "start": val.start, "end": val.end, "ielem": val.elem}
            d[step] = set_at(d[step] if d[step] is not None else Top(), rest, new)
            return Iter(val.ikind, d["rem"], d["ielem"], d["start"], d["end"], val.extra, val.cells, val.pos, val.seen, val.last)
        return val
    return val


def int_leaves(val, prefix=()):
    """yield (path, Int) for every scalar leaf that can take part in constraints"""
    if isinstance(val, Int):
        yield prefix, val
    elif isinstance(val, Struct):
        for i, f in enumerate(val.fields):
            yield from int_leaves(f, prefix + (i,))
    elif isinstance(val, Closure):
        for i, f in enumerate(val.captures):
            yield from int_leaves(f, prefix + (i,))
    elif isinstance(val, Enum):
        for vi, fs in val.variants.items():
            for i, f in enumerate(fs):
                yield from int_leaves(f, prefix + (("v", vi), i))
    elif isinstance(val, Arr):
        if isinstance(val.len, Int):
            yield prefix + ("len",), val.len
        for k, c in val.cells.items():
            yield from int_leaves(c, prefix + (("c", k),))
    elif isinstance(val, Iter):
        for nm, x in (("rem", val.remaining), ("start", val.start), ("end", val.end)):
            if isinstance(x, Int):
                yield prefix + (nm,), x


# ----------------------------------------------------------------------------
# State
# ----------------------------------------------------------------------------
class State:
    __slots__ = ("cells", "cons", "defs", "tag", "ghost", "pending", "guards")

    def __init__(self):
        self.cells = {}
        self.cons = Cons()
        self.defs = {}
        self.tag = ()
        self.ghost = {}
        self.pending = frozenset()
        self.guards = {}     # (var, value) -> frozenset of facts valid when scalar/enum at var has that value/variant

    def copy(self):
        s = State()
        s.cells = dict(self.cells)
        s.cons = self.cons.copy()
        s.defs = dict(self.defs)
        s.tag = self.tag
        s.ghost = dict(self.ghost)
        s.pending = self.pending
        s.guards = dict(self.guards)
        return s

    # -- guarded facts --------------------------------------------------------------
    def apply_guard(self, var, value):
        """the discriminating scalar/enum at `var` is now known to be `value`: assert its guarded facts"""
        fs = self.guards.get((var, value))
        if not fs:
            return
        for f in fs:
            if f[0] == "iv":
                leaf = self.leaf(f[1])
                if leaf is None:
                    continue
                lo, hi = max(leaf.lo, f[2]), min(leaf.hi, f[3])
                if lo > hi:
                    raise Infeasible()
                if (lo, hi) != (leaf.lo, leaf.hi):
                    self.set_leaf(f[1], _tighten(leaf, lo, hi))
                    self.propagate(seed=LinForm({f[1]: 1}, -hi))
                    self.propagate(seed=LinForm({f[1]: -1}, lo))
            elif f[0] == "le":
                self.add_le(f[1])
            elif f[0] == "eq":
                self.add_eq(f[1])
            elif f[0] == "var":
                # nested discriminator: enum at f[1] is variant set f[2]
                v = get_at(self.cells.get(f[1][0], Top()), f[1][1])
                if isinstance(v, Enum):
                    keep = {i: p for i, p in v.variants.items() if i in f[2]}
                    if not keep:
                        if "elem" in f[1][1]:
                            continue       # no element can look like that: says the container is empty, which is recorded separately
                        raise Infeasible()
                    if len(keep) != len(v.variants):
                        if "elem" in f[1][1]:
                            # a fact about every element of a container: the summary (and every known cell) is restricted, not weakly updated
                            self.cells[f[1][0]] = restrict_summary(self.cells[f[1][0]], f[1][1], keep)
                        else:
                            self.cells[f[1][0]] = set_at(self.cells[f[1][0]], f[1][1], Enum(v.path, keep))
                        if len(keep) == 1 and "elem" not in f[1][1]:
                            self.apply_guard(f[1], ("v", next(iter(keep))))

    def relocate_guards(self, src, dst):
        """a value was copied from location src to dst: guards keyed below src also hold keyed below dst"""
        if not self.guards or src is None or dst is None or src == dst:
            return
        sc, sp = src
        n = len(sp)
        add = {}
        for (var, value), fs in self.guards.items():
            if var[0] == sc and var[1][:n] == sp:
                add[((dst[0], dst[1] + var[1][n:]), value)] = fs
        self.guards.update(add)

    # -- bounds -----------------------------------------------------------------
    def leaf(self, var):
        cell, path = var
        v = self.cells.get(cell)
        if v is None:
            return None
        x = get_at(v, path)
        return x if isinstance(x, Int) else None

    def bounds_of(self, var):
        x = self.leaf(var)
        if x is None:
            return (None, None)
        return (x.lo, x.hi)

    def set_leaf(self, var, new):
        cell, path = var
        v = self.cells.get(cell)
        if v is None:
            return
        self.cells[cell] = set_at(v, path, new)

    def lin_bounds(self, lf):
        return inf(lf, self.bounds_of), sup(lf, self.bounds_of)

    def entails_le(self, lf):
        return self.cons.entails_le(lf, self.bounds_of)

    def entails_eq(self, lf):
        return self.cons.entails_eq(lf, self.bounds_of)

    # -- killing ------------------------------------------------------------------
    def vars_under(self, cell, path=()):
        n = len(path)
        out = []
        for v in self.cons.all_vars():
            if v[0] == cell and v[1][:n] == path:
                out.append(v)
        return out

    def kill_vars(self, vars_, keep_bounds=False):
        vars_ = sorted(set(vars_), key=repr)
        if not vars_:
            return
        vs = set(vars_)
        for v in vars_:
            if self.cons.mentions(v):
                leaf = self.leaf(v)
                if leaf is not None and (leaf.lo > -(1 << 62) or leaf.hi < (1 << 62)):
                    # hand the variable's bounds to what it is equated with before it disappears
                    for e in list(self.cons.eq):
                        if v in e.terms and len(e.terms) == 2:
                            try:
                                self.propagate(seed=e, eq=True, rounds=1)
                            except Infeasible:
                                raise
                # rewrite definitions through an equality before the variable disappears
                if self.defs:
                    self._rewrite_defs(v, vs)
                if self.guards:
                    self._rewrite_guards(v, vs)
                self.cons.eliminate(v, self.bounds_of(v), keep_bounds)
            elif self.guards:
                self._rewrite_guards(v, vs)
        self.absorb_unary()
        if self.defs:
            dead = [k for k, d in self.defs.items() if k in vs or _def_mentions(d, vs)]
            for k in dead:
                del self.defs[k]

    def _absent(self, var):
        """var lives in the payload of an enum variant that this state rules out"""
        cell, path = var
        for i, step in enumerate(path):
            if isinstance(step, tuple) and step[0] == "v":
                v = self.cells.get(cell)
                if v is None:
                    return False
                e = get_at(v, path[:i])
                if isinstance(e, Enum) and step[1] not in e.variants:
                    return True
        return False

    def prune(self):
        """drop inequalities that the intervals already imply, unless they are small difference constraints
        (x - y + k <= 0 with small k), which are worth keeping explicit for later joins; drop constraints over payload variables of
        enum variants this state excludes (vacuously true, they only breed junk combinations), and combinations with large coefficients"""
        for c in list(self.cons.le):
            if any(self._absent(v) for v in c.terms) or (len(c.terms) >= 3 and max(abs(k) for k in c.terms.values()) > 2):
                self.cons.le.discard(c)
        for c in list(self.cons.eq):
            if any(self._absent(v) for v in c.terms):
                self.cons.eq.discard(c)
        for c in list(self.cons.le):
            n = len(c.terms)
            if n <= 1:
                continue
            hi = sup(c, self.bounds_of)
            if hi is None or hi > 0:
                continue
            coefs = list(c.terms.values())
            small_diff = n == 2 and sorted(coefs) == [-1, 1] and abs(c.const) <= (1 << 20)
            if not small_diff:
                self.cons.le.discard(c)

    def absorb_unary(self):
        """single-variable constraints produced by elimination become interval bounds;
        constraints implied by the intervals are dropped"""
        self.prune()
        un = [c for c in self.cons.le if len(c.terms) == 1]
        ue = [c for c in self.cons.eq if len(c.terms) == 1]
        if not un and not ue:
            return
        for c in un:
            self.cons.le.discard(c)
        for c in ue:
            self.cons.eq.discard(c)
        for c in un:
            try:
                self.propagate(seed=c)
            except Infeasible:
                raise
        for c in ue:
            self.propagate(seed=c, eq=True)

    def kill_guards(self, cell, path=(), whole_cell=False, rekey=()):
        if not self.guards:
            return
        n = len(path)

        def under(v):
            return v[0] == cell and (whole_cell or v[1][:n] == path)
        new = {}
        for (var, value), fs in self.guards.items():
            if under(var):
                # the key dies: facts keyed on a boolean live on under its negation when that is held by a surviving variable (`let x = !t;`)
                if isinstance(value, int) and value in (0, 1):
                    for kv, x in rekey:
                        if kv == var and not under(x):
                            keep = [f for f in _eliminate_in_facts(fs, under)
                                    if not ((f[0] in ("iv", "var") and under(f[1])) or (f[0] in ("le", "eq") and any(under(v) for v in f[1].terms)))]
                            if keep:
                                new[(x, 1 - value)] = frozenset(keep) | new.get((x, 1 - value), frozenset())
                continue
            fs = _eliminate_in_facts(fs, under)
            keep = []
            for f in fs:
                if f[0] in ("iv", "var"):
                    if under(f[1]):
                        continue
                elif any(under(v) for v in f[1].terms):
                    continue
                keep.append(f)
            if keep:
                new[(var, value)] = frozenset(keep)
        self.guards = new

    def _rewrite_guards(self, v, dying):
        """before scalar v disappears, re-express guarded facts that mention it through an equality v = w + c"""
        hit = False
        for fs in self.guards.values():
            for f in fs:
                if (f[0] == "iv" and f[1] == v) or (f[0] in ("le", "eq") and v in f[1].terms):
                    hit = True
                    break
            if hit:
                break
        if not hit:
            return
        repl = None
        for e in self.cons.eq:
            c = e.terms.get(v)
            if c in (1, -1) and not any(x in dying for x in e.terms if x != v):
                rest = LinForm({x: k for x, k in e.terms.items() if x != v}, e.const)
                repl = (-rest) if c == 1 else rest
                break
        if repl is None:
            leaf = self.leaf(v)
            if leaf is not None and leaf.is_const():
                repl = LinForm.constant(leaf.lo)
        if repl is None:
            # no equality to re-express v through: project it out of each guarded fact with its interval (as eliminate() does for the plain
            # constraints), so that e.g.  idx == len - v - 1  with v >= 0 leaves  idx + 1 <= len
            leaf = self.leaf(v)
            if leaf is None:
                return
            lo = leaf.lo if leaf.lo > -(1 << 62) else None
            hi = leaf.hi if leaf.hi < (1 << 62) else None
            new = {}
            for key, fs in self.guards.items():
                out = []
                for f in fs:
                    if f[0] in ("le", "eq") and v in f[1].terms:
                        a = f[1].terms[v]
                        rest = LinForm({x: k for x, k in f[1].terms.items() if x != v}, f[1].const)
                        forms = [(a, rest)] if f[0] == "le" else [(a, rest), (-a, -rest)]
                        for a_, rest_ in forms:          # a_*v + rest_ <= 0
                            b = lo if a_ > 0 else hi
                            if b is not None and rest_.terms:
                                out.append(("le", rest_ + a_ * b))
                        # the fact itself stays: kill_guards combines the facts that mention a dying variable with each other
                    out.append(f)
                if out:
                    new[key] = frozenset(out)
            self.guards = new
            return
        sv = repl.single_var()
        new = {}
        for key, fs in self.guards.items():
            out = []
            for f in fs:
                if f[0] == "iv" and f[1] == v:
                    if sv is not None and sv[1] == 1:
                        # v = w + k  ->  w in [lo-k, hi-k]
                        out.append(("iv", sv[0], f[2] - sv[2], f[3] - sv[2]))
                    elif not repl.is_const():
                        if f[2] > -(1 << 62):
                            out.append(("le", LinForm.constant(f[2]) - repl))
                        if f[3] < (1 << 62):
                            out.append(("le", repl - f[3]))
                    continue
                if f[0] in ("le", "eq") and v in f[1].terms:
                    out.append((f[0], f[1].subst(v, repl)))
                    continue
                out.append(f)
            if out:
                new[key] = frozenset(out)
        self.guards = new

    def _rewrite_defs(self, v, dying):
        users = [k for k, d in self.defs.items() if k not in dying and d[0] == "cmp" and (v in d[2].terms or v in d[3].terms)]
        if not users:
            return
        repl = None
        for e in self.cons.eq:
            c = e.terms.get(v)
            if c in (1, -1) and not any(x in dying for x in e.terms if x != v):
                rest = LinForm({x: k for x, k in e.terms.items() if x != v}, e.const)
                repl = (-rest) if c == 1 else rest
                break
        if repl is None:
            leaf = self.leaf(v)
            if leaf is not None and leaf.is_const():
                repl = LinForm.constant(leaf.lo)
        if repl is None:
            return
        for k in users:
            d = self.defs[k]
            self.defs[k] = (d[0], d[1], d[2].subst(v, repl), d[3].subst(v, repl))

    def kill_loc(self, cell, path=(), whole=False):
        n = len(path)
        vs = set(self.vars_under(cell, path))
        for k, d in self.defs.items():
            if k[0] == cell and k[1][:n] == path:
                vs.add(k)
            for v in _def_vars(d):
                if v[0] == cell and v[1][:n] == path:
                    vs.add(v)
        if self.guards:
            for fs in self.guards.values():
                for f in fs:
                    if f[0] == "iv":
                        if f[1][0] == cell and f[1][1][:n] == path:
                            vs.add(f[1])
                    elif f[0] in ("le", "eq"):
                        for v in f[1].terms:
                            if v[0] == cell and v[1][:n] == path:
                                vs.add(v)
        # a boolean key that dies while its negation lives on in another variable (`let x = !t;`): remember where its guards go
        rekey = []
        if self.guards and self.defs:
            for x, d in self.defs.items():
                if d[0] == "not" and d[1][0] == cell and d[1][1][:n] == path and not (x[0] == cell and x[1][:n] == path):
                    rekey.append((d[1], x))
        self.kill_vars(vs, keep_bounds=("all" if cell[0] == "H" else True))
        self.kill_guards(cell, path, whole, rekey=rekey)

    def kill_cell(self, cell):
        self.kill_loc(cell, (), True)
        self.cells.pop(cell, None)

    # -- constraint addition with bound propagation ------------------------------------
    def add_le(self, lf, force=False):
        if lf.is_const():
            if lf.const > 0:
                raise Infeasible()
            return
        lo = inf(lf, self.bounds_of)
        if lo is not None and lo > 0:
            raise Infeasible()
        hi = sup(lf, self.bounds_of)
        if hi is not None and hi <= 0 and len(lf.terms) > 1 and not force:
            return  # implied by intervals
        if len(lf.terms) > 1:
            self.cons.add_le(lf)
        self.propagate(seed=lf)

    def add_eq(self, lf):
        if lf.is_const():
            if lf.const != 0:
                raise Infeasible()
            return
        if len(lf.terms) > 1:
            self.cons.add_eq(lf)
        self.propagate(seed=lf, eq=True)

    def propagate(self, seed=None, eq=False, rounds=4):
        """tighten intervals from constraints (bounded rounds); raises Infeasible on empty interval"""
        work = []
        if seed is not None:
            work.append((seed, eq))
        changed_vars = set()
        first = True
        for _ in range(rounds):
            if not work:
                break
            nxt_vars = set()
            if first and seed is not None:
                nxt_vars.update(seed.terms.keys())
                first = False
            for lf, is_eq in work:
                for form in ((lf, -lf) if is_eq else (lf,)):
                    # form <= 0 ;  for each var x with coef c: c*x <= -(rest)
                    for x, c in form.terms.items():
                        rest = LinForm({v: k for v, k in form.terms.items() if v != x}, form.const)
                        rlo = inf(rest, self.bounds_of)
                        if rlo is None:
                            continue
                        leaf = self.leaf(x)
                        if leaf is None:
                            continue
                        # c*x <= -rlo
                        if c > 0:
                            ub = (-rlo) // c
                            if ub < leaf.hi:
                                if ub < leaf.lo:
                                    raise Infeasible()
                                self.set_leaf(x, _tighten(leaf, leaf.lo, ub))
                                nxt_vars.add(x)
                        else:
                            lb = -((-rlo) // (-c))  # ceil(rlo / -c) ... c<0:  x >= rlo/(-c)
                            lb = -((-rlo) // (-c)) if False else _ceil_div(rlo, -c)
                            if lb > leaf.lo:
                                if lb > leaf.hi:
                                    raise Infeasible()
                                self.set_leaf(x, _tighten(leaf, lb, leaf.hi))
                                nxt_vars.add(x)
            if not nxt_vars:
                break
            changed_vars |= nxt_vars
            work = []
            for c in self.cons.le:
                if any(v in nxt_vars for v in c.terms):
                    work.append((c, False))
            for c in self.cons.eq:
                if any(v in nxt_vars for v in c.terms):
                    work.append((c, True))
        return changed_vars


def _eliminate_in_facts(fs, under):
    """inside one guard's fact set, re-express facts over dying variables through the set's own equalities"""
    dying = set()
    for f in fs:
        if f[0] == "iv" and under(f[1]):
            dying.add(f[1])
        elif f[0] in ("le", "eq"):
            for v in f[1].terms:
                if under(v):
                    dying.add(v)
    if not dying:
        return fs
    fs = set(fs)
    for v in dying:
        sol = None
        src = None
        for f in fs:
            if f[0] == "eq" and f[1].terms.get(v) in (1, -1) and not any(x in dying for x in f[1].terms if x != v):
                c = f[1].terms[v]
                rest = LinForm({x: k for x, k in f[1].terms.items() if x != v}, f[1].const)
                sol = (-rest) if c == 1 else rest
                src = f
                break
        if sol is None:
            continue
        out = set()
        for f in fs:
            if f is src:
                continue
            if f[0] == "iv" and f[1] == v:
                if f[2] > -(1 << 62):
                    out.add(("le", LinForm.constant(f[2]) - sol))
                if f[3] < (1 << 62):
                    out.add(("le", sol - f[3]))
            elif f[0] in ("le", "eq") and v in f[1].terms:
                out.add((f[0], f[1].subst(v, sol)))
            else:
                out.add(f)
        fs = out
    return frozenset(fs)


def _ceil_div(a, b):
    return -((-a) // b)


def _tighten(leaf, lo, hi):
    tz = leaf.tz
    if tz and tz < 64:
        m = 1 << tz
        lo = _ceil_div(lo, m) * m
        hi = (hi // m) * m
        if lo > hi:
            raise Infeasible()
    if lo == hi:
        return Int.const(lo, leaf.bits, leaf.signed)
    return Int(lo, hi, leaf.bits, leaf.signed, tz)


def _def_vars(d):
    out = []
    for x in d[1:]:
        if isinstance(x, LinForm):
            out.extend(x.terms.keys())
        elif isinstance(x, tuple) and len(x) == 2 and isinstance(x[1], tuple):
            out.append(x)
    return out


def _def_mentions(d, vs):
    for v in _def_vars(d):
        if v in vs:
            return True
    return False


# ----------------------------------------------------------------------------
# join / widen / order on states
# ----------------------------------------------------------------------------
def join_states(a, b, widen=False, thresholds=(), templates=False, template_vars=(), relax=True):
    out = State()
    out.tag = a.tag
    keys = set(a.cells) & set(b.cells)
    for k in keys:
        va, vb = a.cells[k], b.cells[k]
        if va is vb:
            out.cells[k] = va
        elif widen:
            out.cells[k] = widen_val(va, join_val(va, vb), thresholds)
        else:
            out.cells[k] = join_val(va, vb)
    # heap cells existing on one side only are kept (they are unreachable from the other side)
    for k in set(a.cells) ^ set(b.cells):
        if k[0] in ("H", "T", "P", "G"):
            out.cells[k] = a.cells.get(k, b.cells.get(k))
    if widen:
        # keep constraints of a that b entails
        c = Cons()
        for x in a.cons.eq:
            if x in b.cons.eq or b.cons.entails_eq(x, b.bounds_of):
                c.eq.add(x)
            elif b.cons.entails_le(x, b.bounds_of):
                c.le.add(x)
            elif b.cons.entails_le(-x, b.bounds_of):
                c.le.add(-x)
        for x in a.cons.le:
            if x in b.cons.le or b.cons.entails_le(x, b.bounds_of):
                c.le.add(x)
        if templates or EXTRA_TEMPLATES:
            for x in (_heap_templates(a, b, template_vars) if templates else []) + _extra_templates(a, b):
                if x not in c.le and a.cons.entails_le(x, a.bounds_of) and b.cons.entails_le(x, b.bounds_of):
                    c.le.add(x)
        out.cons = c
    else:
        out.cons = join_cons(a.cons, b.cons, a.bounds_of, b.bounds_of, (_heap_templates(a, b, template_vars) if templates else []) + _extra_templates(a, b), relax=relax)
        # constraints over the payload of an enum variant that the other state does not have are NOT kept here: they hold only under
        # that variant, while everything in `cons` is used unconditionally (interval propagation, entailment).  They survive as guarded
        # facts keyed on the enum's variant (join_guards records every fact one side loses), and come back when the variant is selected.
    out.defs = {k: v for k, v in a.defs.items() if b.defs.get(k) == v}
    g = {}
    for k in set(a.ghost) | set(b.ghost):
        x, y = a.ghost.get(k), b.ghost.get(k)
        if isinstance(x, frozenset) or isinstance(y, frozenset):
            g[k] = (x or frozenset()) | (y or frozenset())
        elif x == y:
            g[k] = x
        elif x in _STATUS_RANK and y in _STATUS_RANK:
            g[k] = x if _STATUS_RANK[x] >= _STATUS_RANK[y] else y
        else:
            g[k] = None
    out.ghost = g
    out.pending = a.pending | b.pending
    out.prune()
    if not widen:
        out.guards = join_guards(a, b, out, grow=relax)
    else:
        out.guards = {k: v for k, v in a.guards.items() if b.guards.get(k) == v}
    return out


EXTRA_TEMPLATES = []     # linear forms f (meaning f == 0) an analysis wants tried at every join: kept when both sides entail them


def _extra_templates(a, b):
    out = []
    for f in EXTRA_TEMPLATES:
        if all(a.leaf(v) is not None and b.leaf(v) is not None for v in f.terms):
            out.append(f)
            out.append(-f)
    return out


INVARIANT_VARS = []      # heap scalars whose pairwise order is always tried at joins (set by the analysis that owns an object invariant)

_STATUS_RANK = {"clean": 0, "restorable": 1, "appended": 2, "dirty": 3}


def _heap_templates(a, b, extra_vars=()):
    """difference constraints x - y <= 0 between heap scalars that are related in both states:
    makes facts that are only *implied* on each side (e.g. filled <= cap) explicit so the join keeps them"""
    va = {v for v in a.cons.all_vars() if v[0][0] in ("H", "G")}
    vb = {v for v in b.cons.all_vars() if v[0][0] in ("H", "G")}
    vs = sorted(va | vb | set(INVARIANT_VARS), key=repr)
    vs = [v for v in vs if a.leaf(v) is not None and b.leaf(v) is not None]
    if len(vs) > 8:
        vs = [v for v in vs if v in INVARIANT_VARS] + [v for v in vs if v not in INVARIANT_VARS][:8]
    out = []
    for x in vs:
        for y in vs:
            if x == y or (x[0] != y[0] and x[0][0] != "G" and y[0][0] != "G"):
                continue
            out.append(LinForm({x: 1, y: -1}, 0))
    ev = [v for v in extra_vars if a.leaf(v) is not None and b.leaf(v) is not None][:10]
    for x in ev:
        for y in ev:
            if x != y:
                out.append(LinForm({x: 1, y: -1}, 0))
    return out


def _vacuous(st, lf):
    """some variable of lf lives in an enum variant that state st rules out"""
    for (cell, path) in lf.terms:
        for i, step in enumerate(path):
            if isinstance(step, tuple) and step[0] == "v":
                v = st.cells.get(cell)
                if v is None:
                    break
                e = get_at(v, path[:i])
                if isinstance(e, Enum) and step[1] not in e.variants:
                    return True
    return False


def _discriminators(val, prefix=(), depth=0):
    """yield (path, kind, value) for enum nodes ('enum', set of variant idx) and 1-bit scalars ('bool', Int)"""
    if depth > 3:
        return
    if isinstance(val, Enum):
        yield prefix, "enum", frozenset(val.variants)
        for vi, fs in val.variants.items():
            for i, f in enumerate(fs):
                yield from _discriminators(f, prefix + (("v", vi), i), depth + 1)
    elif isinstance(val, Int):
        if val.bits == 1:
            yield prefix, "bool", val
    elif isinstance(val, Struct) and (depth < 2 or (depth < 3 and "elem" in prefix)):
        for i, f in enumerate(val.fields):
            yield from _discriminators(f, prefix + (i,), depth + 1)
    elif isinstance(val, Arr) and depth < 2 and not val.elem.is_bot():
        # the summary element of a container: an enum node there speaks about every element
        yield from _discriminators(val.elem, prefix + ("elem",), depth + 1)


def _lost_facts(s, out, limit=60):
    """facts that hold in state s but not in the joined state out"""
    facts = []
    for cell, v in s.cells.items():
        vo = out.cells.get(cell)
        if vo is None or vo is v:
            continue
        for p, leaf in int_leaves(v):
            lo_ = get_at(vo, p)
            if isinstance(lo_, Int) and (leaf.lo > lo_.lo or leaf.hi < lo_.hi):
                facts.append(("iv", (cell, p), leaf.lo, leaf.hi))
        for p, kind, val in _discriminators(v):
            if kind == "enum":
                eo = get_at(vo, p)
                if isinstance(eo, Enum) and len(eo.variants) > len(val):
                    facts.append(("var", (cell, p), val))
        if len(facts) > limit:
            break
    for c in s.cons.eq:
        if c not in out.cons.eq:
            facts.append(("eq", c))
    for c in s.cons.le:
        if c not in out.cons.le:
            facts.append(("le", c))
    return facts[:limit * 2]


def _in_empty_container(s, loc):
    """does the location lie inside the summary element of a container that is certainly empty in s?  Facts about such an element hold vacuously"""
    cell, path = loc
    if "elem" not in path:
        return False
    root = s.cells.get(cell)
    if root is None:
        return False
    for i, step in enumerate(path):
        if step == "elem":
            arr = get_at(root, path[:i])
            if isinstance(arr, Arr) and isinstance(arr.len, Int) and arr.len.hi == 0 and not arr.cells:
                return True
    return False


def _maybe_empty_container(s, loc):
    cell, path = loc
    root = s.cells.get(cell)
    if root is None:
        return True
    for i, step in enumerate(path):
        if step == "elem":
            arr = get_at(root, path[:i])
            if not isinstance(arr, Arr) or not isinstance(arr.len, Int) or arr.len.lo == 0:
                return True
    return False


def _state_entails_fact(s, f):
    if f[0] in ("iv", "var") and _in_empty_container(s, f[1]):
        return True
    # a fact about the payload of an enum variant that s rules out says nothing about s
    if f[0] in ("iv", "var") and s._absent(f[1]):
        return True
    if f[0] in ("le", "eq") and any(s._absent(v) for v in f[1].terms):
        return True
    if f[0] == "iv":
        leaf = s.leaf(f[1])
        return leaf is not None and f[2] <= leaf.lo and leaf.hi <= f[3]
    if f[0] == "le":
        return s.entails_le(f[1])
    if f[0] == "eq":
        return s.entails_eq(f[1])
    if f[0] == "var":
        v = get_at(s.cells.get(f[1][0], Top()), f[1][1])
        return isinstance(v, Enum) and set(v.variants) <= set(f[2])
    return False


def join_guards(a, b, out, grow=True):
    keys = set(a.guards) | set(b.guards)
    # new discriminating keys: enum nodes / bools on which the two states differ
    new_keys = set()
    for cell in set(a.cells) & set(b.cells):
        va, vb = a.cells[cell], b.cells[cell]
        if va is vb:
            continue
        if cell[0] not in ("L", "H"):
            continue
        da = {p: (k, v) for p, k, v in _discriminators(va)}
        db = {p: (k, v) for p, k, v in _discriminators(vb)}
        for p in set(da) & set(db):
            ka, xa = da[p]
            kb, xb = db[p]
            if ka != kb:
                continue
            if ka == "enum" and xa != xb:
                for i in xa | xb:
                    new_keys.add(((cell, p), ("v", i)))
            elif ka == "bool" and xa.is_const() and xb.is_const() and xa.lo != xb.lo:
                new_keys.add(((cell, p), xa.lo))
                new_keys.add(((cell, p), xb.lo))
            elif ka == "bool" and xa.is_const() != xb.is_const():
                # decided on one side only (`a && b` materialised: false on the short-circuit path, the comparison's result on the other):
                # the value the decided side excludes can only come from the other side, whose facts it therefore guards
                c0 = xa.lo if xa.is_const() else xb.lo
                new_keys.add(((cell, p), 1 - c0))
    if not keys and not new_keys:
        return {}
    lost_a = lost_b = None
    res = {}
    memo = {}              # (side, fact) -> does the unconditioned state entail it (the same lost facts are offered for every key)
    total = [160]          # entailment queries per join over all keys

    def feasible(s, key):
        var, value = key
        if "elem" in var[1] and _maybe_empty_container(s, var):
            return True         # a statement about every element of a container holds vacuously of an empty one
        v = get_at(s.cells.get(var[0], Top()), var[1])
        if isinstance(value, tuple):
            if isinstance(v, Enum):
                return value[1] in v.variants
            return not isinstance(v, Bot)
        if isinstance(v, Int):
            return v.lo <= value <= v.hi
        return not isinstance(v, Bot)
    for key in keys | new_keys:
        fa, fb = feasible(a, key), feasible(b, key)
        if not fa and not fb:
            continue
        if lost_a is None:
            lost_a, lost_b = _lost_facts(a, out), _lost_facts(b, out)
        if fa and not fb:
            fs = set(a.guards.get(key, ())) | set(lost_a)
        elif fb and not fa:
            fs = set(b.guards.get(key, ())) | set(lost_b)
        else:
            sa = set(a.guards.get(key, ())) | set(lost_a)
            sb = set(b.guards.get(key, ())) | set(lost_b)
            fs = sa & sb
            # a fact recorded for this key on one side is kept when the other side entails it *under the same condition*
            # (its own facts for the key asserted), not only when it holds there unconditionally
            under = {}

            def conditioned(s, which):
                if which not in under:
                    c = s.copy()
                    try:
                        var, value = key
                        if isinstance(value, tuple):
                            e = get_at(c.cells.get(var[0], Top()), var[1])
                            if isinstance(e, Enum) and len(e.variants) > 1 and value[1] in e.variants:
                                c.cells[var[0]] = set_at(c.cells[var[0]], var[1], Enum(e.path, {value[1]: e.variants[value[1]]}))
                        c.apply_guard(var, value)
                        under[which] = c
                    except Infeasible:
                        under[which] = None
                return under[which]
            def cost(f):
                return (0 if f[0] in ("iv", "var") else len(f[1].terms), repr(f))
            budget = [12]      # conditioned entailment queries per key and join: facts are tried cheapest first, the rest is dropped (sound: fewer facts)

            def holds(s, which, f):
                mk = (which, f)
                r = memo.get(mk)
                if r is None:
                    if total[0] <= 0:
                        return False
                    total[0] -= 1
                    r = memo[mk] = _state_entails_fact(s, f)
                if r:
                    return True
                if budget[0] <= 0 or total[0] <= 0:
                    return False
                if f[0] in ("le", "eq") and len(f[1].terms) > 3:
                    return False
                budget[0] -= 1
                total[0] -= 1
                cs = conditioned(s, which)
                return cs is not None and _state_entails_fact(cs, f)
            for f in sorted(sa - fs, key=cost):
                if holds(b, "b", f):
                    fs.add(f)
            for f in sorted(sb - fs, key=cost):
                if holds(a, "a", f):
                    fs.add(f)
        if not grow:
            # later visits of a loop head: the facts recorded for a key may only shrink (a growing fact set would keep the loop from converging)
            fs = set(fs) & set(a.guards.get(key, ()))
        if fs:
            var, value = key
            if isinstance(value, tuple):
                def foreign(f):
                    if f[0] not in ("le", "eq"):
                        return False
                    for (cell, path) in f[1].terms:
                        if cell == var[0] and path[:len(var[1])] == var[1] and len(path) > len(var[1]):
                            step = path[len(var[1])]
                            if isinstance(step, tuple) and step[0] == "v" and step[1] != value[1]:
                                return True
                    return False
                fs = {f for f in fs if not foreign(f)}
            if fs:
                res[key] = frozenset(fs)
    return res


def state_leq(a, b):
    for k, vb in b.cells.items():
        va = a.cells.get(k)
        if va is None:
            continue
        if not leq_val(va, vb):
            return False
    for x in b.cons.eq:
        if x not in a.cons.eq and not a.cons.entails_eq(x, a.bounds_of):
            return False
    for x in b.cons.le:
        if x not in a.cons.le and not a.cons.entails_le(x, a.bounds_of):
            return False
    for k, v in a.ghost.items():
        w = b.ghost.get(k)
        if isinstance(v, frozenset):
            if not (isinstance(w, frozenset) and v <= w):
                return False
        elif v in _STATUS_RANK and w in _STATUS_RANK:
            if _STATUS_RANK[v] > _STATUS_RANK[w]:
                return False
        elif w is not None and w != v:
            return False
    if not a.pending <= b.pending:
        return False
    for k, fs in b.guards.items():
        if a.guards.get(k) == fs:
            continue
        var, value = k
        v = get_at(a.cells.get(var[0], Top()), var[1])
        if isinstance(value, tuple):
            if isinstance(v, Enum) and value[1] not in v.variants:
                continue
        elif isinstance(v, Int) and not (v.lo <= value <= v.hi):
            continue
        mine = a.guards.get(k, frozenset())
        for f in fs:
            if f in mine:
                continue
            if f[0] == "iv":
                leaf = a.leaf(f[1])
                if leaf is None or leaf.lo < f[2] or leaf.hi > f[3]:
                    return False
            elif f[0] == "le":
                if not a.entails_le(f[1]):
                    return False
            elif f[0] == "eq":
                if not a.entails_eq(f[1]):
                    return False
            else:
                return False
    return True
