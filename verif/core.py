"""core — rule/report plumbing shared by all rule modules.

A *rule* is a function `rule(ctx) -> RuleReport`.  It inspects the resolved program
(`ctx.prog`, a mirlib.Program of the current /repo working tree) and reports

  * instances  — the concrete constructs it examined (call sites, fields, regions …),
  * findings   — violations, each with a line-number-free *key*,
  * obligations / discharged counts where the rule is an abstract-interpretation proof.

A rule that cannot find its anchors raises `AnchorLost`, which is turned into a
failing finding (`rule=ANCHOR-LOST`): no rule passes vacuously.
"""
import json
import os
import time


class AnchorLost(Exception):
    pass


class Finding:
    def __init__(self, rule, key, where, msg, detail=None):
        self.rule = rule
        self.key = key          # stable, no line numbers
        self.where = where      # file:line:col (informational)
        self.msg = msg
        self.detail = detail or {}

    def to_json(self):
        return {"rule": self.rule, "key": self.key, "where": self.where, "msg": self.msg, "detail": self.detail}


class RuleReport:
    def __init__(self, rule, clause):
        self.rule = rule
        self.clause = clause            # one sentence: what is decided
        self.instances = []             # list of str / dict
        self.findings = []
        self.obligations = 0
        self.discharged = 0
        self.assumed = []               # assumption names used
        self.notes = []
        self.samples = []
        self.floor = None               # (count, expected_min)
        self.analysed = []              # function keys analysed

    def instance(self, desc):
        self.instances.append(desc)

    def violation(self, key, where, msg, detail=None):
        self.findings.append(Finding(self.rule, key, str(where), msg, detail))

    def oblige(self, ok, key, where, msg, detail=None):
        """count an obligation; record a finding when it is not discharged"""
        self.obligations += 1
        if ok:
            self.discharged += 1
        else:
            self.violation(key, where, msg, detail)
        return ok

    def require_floor(self, n_min, what):
        n = len(self.instances)
        self.floor = (n, n_min)
        if n < n_min:
            raise AnchorLost("%s: found %d %s, expected at least %d" % (self.rule, n, what, n_min))

    def to_json(self):
        return {
            "rule": self.rule,
            "clause": self.clause,
            "instances": len(self.instances),
            "instance_list": self.instances[:200],
            "floor": list(self.floor) if self.floor else None,
            "obligations": self.obligations,
            "discharged": self.discharged,
            "findings": [f.to_json() for f in self.findings],
            "assumptions": self.assumed,
            "notes": self.notes,
            "analysed": self.analysed[:200],
        }


class Ctx:
    """what a rule gets: the program(s) and tier/seed"""

    def __init__(self, progs, tier, seed, repo):
        self.progs = progs            # dict config-name -> mirlib.Program
        self.prog = progs.get("default")
        self.tier = tier
        self.seed = seed
        self.repo = repo
        self.cache = {}

    def need_file(self, crate, rel):
        """fail closed if an anchored source file was not read by rustc"""
        for p in self.progs.values():
            if (crate, rel) in p.source_files:
                return True
        raise AnchorLost("source file %s of crate %s was not compiled (not in any module tree?)" % (rel, crate))


def load_known_findings(path):
    if not os.path.exists(path):
        return []
    with open(path) as f:
        d = json.load(f)
    return d.get("findings", [])
