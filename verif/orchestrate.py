#!/usr/bin/env python3
"""orchestrate — entry point behind /verif/check.

  check <Cxx> [--tier quick|thorough] [--repo DIR] [--facts DIR] [--keep-facts]
  check <Cxx> --explain <replay.json>

Builds μMIR facts from the repo's *current working tree* (fresh cargo target dir,
driver injected as RUSTC_WRAPPER), runs the rules registered for the property, writes
/verif/evidence/<Cxx>.json and prints VIOLATION / KNOWN-FINDING lines.
"""
import argparse
import json
import os
import shutil
import subprocess
import sys
import tempfile
import time
import traceback

HERE = os.path.dirname(os.path.abspath(__file__))
ROOT = os.path.dirname(HERE)
sys.path.insert(0, HERE)

import mirlib  # noqa: E402
from core import AnchorLost, Ctx, Finding, RuleReport, load_known_findings  # noqa: E402
import registry  # noqa: E402



CONFIGS = {
    "default": [],
    "futures": ["--features", "futures"],
    "derive": ["--features", "derive-spec"],
    "all": ["--features", "derive-spec,futures"],
}


def dump_facts(repo, out, cfg):
    cmd = [os.path.join(ROOT, "bin", "dump_mir.sh"), repo, out] + CONFIGS[cfg]
    r = subprocess.run(cmd, stdout=subprocess.PIPE, stderr=subprocess.PIPE, text=True)
    if r.returncode != 0:
        raise RuntimeError("fact extraction failed for config %s:\n%s\n%s" % (cfg, r.stdout[-3000:], r.stderr[-3000:]))
    need = os.path.join(out, "ebml_iterable.json")
    if not os.path.exists(need):
        raise RuntimeError("fact file %s missing after driver run (stale target dir / driver not injected?)" % need)


def main():
    ap = argparse.ArgumentParser()
    ap.add_argument("prop")
    ap.add_argument("--tier", default=os.environ.get("VERIF_TIER", "quick"))
    ap.add_argument("--repo", default=os.environ.get("VERIF_REPO", "/repo"))
    ap.add_argument("--facts", default=None, help="reuse fact dir (debugging only)")
    ap.add_argument("--keep-facts", action="store_true")
    ap.add_argument("--explain", default=None)
    ap.add_argument("--no-evidence", action="store_true")
    ap.add_argument("--evidence-dir", default=os.path.join(ROOT, "evidence"))
    args = ap.parse_args()
    prop = args.prop
    tier = args.tier if args.tier in ("quick", "thorough") else "quick"
    try:
        seed = int(os.environ.get("VERIF_SEED", "0"))
    except ValueError:
        seed = 0

    if args.explain:
        with open(args.explain) as f:
            print(json.dumps(json.load(f), indent=1))
        return 0

    if prop not in registry.PROPERTIES:
        print("unknown or not-claimed property %s" % prop)
        return 2
    pdef = registry.PROPERTIES[prop]
    t0 = time.time()
    cfgs = list(pdef.get("configs_%s" % tier, pdef.get("configs", ["default"])))
    tmp = None
    reports = []
    fatal = []
    progs = {}
    fact_root = args.facts
    try:
        if fact_root is None:
            tmp = tempfile.mkdtemp(prefix="verif-facts.")
            fact_root = tmp
        for cfg in cfgs:
            d = os.path.join(fact_root, cfg)
            if not (args.facts and os.path.isdir(d)):
                dump_facts(args.repo, d, cfg)
            progs[cfg] = mirlib.Program(d)
        if "default" not in progs:
            progs["default"] = progs[cfgs[0]]
        ctx = Ctx(progs, tier, seed, args.repo)
        ctx.fact_root = fact_root
        ctx.root = ROOT
        for rid in pdef["rules"]:
            fn = registry.RULES[rid]
            try:
                rep = fn(ctx)
                reps = rep if isinstance(rep, list) else [rep]
                reports.extend(reps)
            except AnchorLost as e:
                r = RuleReport(rid, "(anchor lost)")
                r.violation("ANCHOR-LOST|%s" % rid, "-", "rule %s could not find its anchors: %s" % (rid, e))
                reports.append(r)
            except Exception as e:  # fail closed, but say it is the checker
                r = RuleReport(rid, "(checker error)")
                r.violation("CHECKER-ERROR|%s" % rid, "-", "rule %s crashed: %r" % (rid, e), {"trace": traceback.format_exc()[-4000:]})
                reports.append(r)
    except Exception as e:
        fatal.append("%r" % (e,))
        traceback.print_exc()
    finally:
        if tmp and not args.keep_facts:
            shutil.rmtree(tmp, ignore_errors=True)

    known = [k for k in load_known_findings(os.path.join(ROOT, "known_findings.json")) if k.get("property") == prop]
    known_keys = {k["key"]: k for k in known if k.get("status") == "known"}

    violations = []
    known_hit = []
    for rep in reports:
        for f in rep.findings:
            if f.key in known_keys:
                known_hit.append((f, known_keys[f.key]))
            else:
                violations.append(f)
    for k in fatal:
        violations.append(Finding("FATAL", "FATAL|" + prop, "-", k))

    vdir = os.path.join(args.evidence_dir, "violations")
    lines = []
    seen = set()
    for f, k in known_hit:
        if f.key in seen:
            continue
        seen.add(f.key)
        lines.append("KNOWN-FINDING: property=%s %s [%s]" % (prop, k.get("what", f.msg), f.key))
    reported = {f.key for f, _ in known_hit}
    for key, k in known_keys.items():
        if key not in reported:
            lines.append("STALE-KNOWN-FINDING: property=%s key=%s no longer reproduces" % (prop, key))
    if violations and not args.no_evidence:
        os.makedirs(vdir, exist_ok=True)
    for i, f in enumerate(violations):
        path = os.path.join(vdir, "%s-%d.json" % (prop, i))
        if not args.no_evidence:
            with open(path, "w") as fh:
                json.dump({"property": prop, **f.to_json()}, fh, indent=1)
        lines.append("VIOLATION property=%s replay=%s rule=%s key=%s at %s: %s" % (prop, path, f.rule, f.key, f.where, f.msg))

    wall = time.time() - t0
    if not args.no_evidence:
        write_evidence(args.evidence_dir, prop, pdef, tier, seed, reports, violations, known_hit, wall, cfgs, progs)
    for rep in reports:
        print("rule %-22s instances=%-3d obligations=%-4d discharged=%-4d findings=%d" % (rep.rule, len(rep.instances), rep.obligations, rep.discharged, len(rep.findings)))
    for n in sorted({n for p in progs.values() for n in getattr(p, "renamed", [])}):
        print("NOTE renamed anchor: %s" % n)
    for ln in lines:
        print(ln)
    print("%s: %s (%.1fs)" % (prop, "FAIL" if violations else "ok", wall))
    return 1 if violations else 0


def write_evidence(evdir, prop, pdef, tier, seed, reports, violations, known_hit, wall, cfgs, progs):
    os.makedirs(evdir, exist_ok=True)
    obligations = sum(r.obligations for r in reports)
    discharged = sum(r.discharged for r in reports)
    instances = sum(len(r.instances) for r in reports)
    level = pdef.get("level", "other")
    if level == "proof" and (obligations == 0 or discharged != obligations):
        level = "other"
    samples = []
    for r in reports:
        for s in r.samples[:4]:
            samples.append({"rule": r.rule, "sample": s})
        for ins in r.instances[:2]:
            samples.append({"rule": r.rule, "instance": ins})
    files = sorted({"%s:%s" % (c, f) for p in progs.values() for (c, f) in p.source_files})
    funcs = sorted({k for p in progs.values() for k, b in p.bodies.items()})
    assumptions = sorted({a for r in reports for a in r.assumed})
    cov = {
        "explanation": pdef["explanation"],
        "rules": [r.to_json() for r in reports],
        "rule_instances": instances,
        "obligations": obligations,
        "discharged": discharged,
        "checker_cmd": "./check %s --tier %s" % (prop, tier),
        "trusted_base": ["rustc nightly MIR construction", "/verif/driver mir2json serialiser", "/verif/verif std models (tables/std_models)", "absint domains"],
        "configs": cfgs,
        "source_files_read_by_rustc": files,
        "functions_in_program": len(funcs),
        "samples": samples[:40] if samples else [{"note": "no instances"}],
        "known_findings_hit": [f.key for f, _ in known_hit],
        "renamed_anchors": sorted({n for p in progs.values() for n in getattr(p, "renamed", [])}),
        "exhaustive": False,
    }
    if level == "translation_validation":
        # programs = declarations of the corpus, each in both front-end syntaxes; disagreements_checked = table cells compared
        progs_n = sum(len(r.analysed) for r in reports if r.rule == "R-DERIVE-EXPANSION")
        cov["programs"] = max(1, 2 * progs_n)
        cov["disagreements_checked"] = sum(r.obligations for r in reports if r.rule == "R-DERIVE-EXPANSION")
    ev = {
        "property_id": prop,
        "tier": tier,
        "seed": seed,
        "level": level,
        "coverage": cov,
        "assumptions": assumptions,
        "wall_s": round(wall, 2),
        "violations": len(violations),
    }
    with open(os.path.join(evdir, "%s.json" % prop), "w") as f:
        json.dump(ev, f, indent=1)


if __name__ == "__main__":
    sys.exit(main())
