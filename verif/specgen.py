"""specgen — declaration corpus for the derive macros (C18): tables, their rendering in both front-end syntaxes, and the
rejection witnesses with their compiling twins.

A declaration is a list of variants (name, type, id, path); a path is a list whose items are a variant name (str) or a global
placeholder (min, max) with None for an open bound.  The expected meaning of a declaration (what the generated code must say) is
computed here from the table alone — independently of the macro."""
import random

TYPES = ["UnsignedInt", "Integer", "Utf8", "Binary", "Float", "Master"]
FIELD_TY = {"UnsignedInt": "u64", "Integer": "i64", "Utf8": "std::string::String", "Binary": "std::vec::Vec<u8>", "Float": "f64", "Master": "Master"}
GLOBALS = [("Crc32", "Binary", 0xbf, [(1, None)]), ("Void", "Binary", 0xec, [(None, None)])]


def V(name, ty, id_, path=()):
    return (name, ty, id_, list(path))


FIXED = {
    # the repository's own feature-gated test enum
    "repo_hierarchy": [
        V("Root", "Master", 0x01), V("Parent", "Master", 0x02, ["Root"]), V("Count", "UnsignedInt", 0x100, ["Root", "Parent"]),
        V("Data", "Binary", 0x200, ["Root", "Parent"]), V("Name", "Utf8", 0x201, ["Root", "Parent"]),
        V("Amount", "Float", 0x102, ["Root", "Parent"]), V("Id", "Integer", 0x101, ["Root", "Parent"]),
    ],
    # every data type as a root element, no paths at all
    "all_types_flat": [
        V("A", "UnsignedInt", 0x81), V("B", "Integer", 0x82), V("C", "Utf8", 0x83), V("D", "Binary", 0x84), V("E", "Float", 0x85), V("M", "Master", 0x86),
    ],
    # depth 4, global placeholders in trailing and intermediate position with every bound shape
    "deep_globals": [
        V("Ebml", "Master", 0x1a45dfa3), V("Seg", "Master", 0x18538067), V("Cluster", "Master", 0x1f43b675, ["Seg"]),
        V("Group", "Master", 0xa0, ["Seg", "Cluster"]), V("Block", "Binary", 0xa1, ["Seg", "Cluster", "Group"]),
        V("Deep", "UnsignedInt", 0x4001, ["Seg", "Cluster", "Group", (1, None)]), V("Any", "Utf8", 0x4002, ["Seg", (None, None)]),
        V("AtMost", "Integer", 0x4003, ["Seg", "Cluster", (None, 2)]), V("Between", "Float", 0x4004, ["Seg", (1, 3)]),
        V("Loose", "Master", 0x4005, ["Seg", (0, 1)]), V("Item", "UnsignedInt", 0x4006, ["Seg", (0, 1), "Loose"]),
        V("Sub", "Master", 0x4007, ["Seg", (0, 1), "Loose"]), V("Leaf", "Binary", 0x4008, ["Seg", (0, 1), "Loose", "Sub", (2, None)]),
    ],
    # user-declared global elements: paths that consist of a placeholder only, and children of a global master
    "global_only": [
        V("Top", "Master", 0x81), V("Tagline", "Utf8", 0x4010, [(1, None)]), V("Pad", "Binary", 0x4011, [(None, 2)]),
        V("Free", "Master", 0x4012, [(None, None)]), V("FreeItem", "UnsignedInt", 0x4013, [(None, None), "Free"]),
        V("Exact", "Float", 0x4014, [(2, 2)]), V("Inner", "Integer", 0x4015, ["Top"]),
    ],
    # ids of 1 to 8 bytes
    "id_widths": [
        V("W1", "Master", 0x81), V("W2", "UnsignedInt", 0x4001, ["W1"]), V("W3", "Integer", 0x200001, ["W1"]), V("W4", "Utf8", 0x10000001, ["W1"]),
        V("W5", "Binary", 0x0800000001, ["W1"]), V("W6", "Float", 0x040000000001, ["W1"]), V("W7", "Master", 0x02000000000001, ["W1"]),
        V("W8", "UnsignedInt", 0x0100000000000001, ["W1", "W7"]), V("Max", "Integer", 0xffffffffffffffff),
    ],
}


def seeded(seed, n):
    """n random well-formed declarations"""
    rnd = random.Random(seed)
    out = {}
    for k in range(n):
        nm = rnd.randint(1, 5)
        nl = rnd.randint(1, 9)
        used = {0xbf, 0xec}
        decl = []
        masters = []     # (name, full path of its children)

        def fresh_id():
            while True:
                w = rnd.randint(1, 8)
                i = rnd.getrandbits(8 * w - 1) | 1
                if i not in used:
                    used.add(i)
                    return i
        for m in range(nm):
            name = "M%d" % m
            if masters and rnd.random() < 0.75:
                pn, ppath = rnd.choice(masters)
                path = list(ppath)
            else:
                path = []
            if path and rnd.random() < 0.2:
                lo = rnd.choice([None, 0, 1])
                hi = rnd.choice([None, 1, 2, 5])
                if hi is not None and lo is not None and hi < lo:
                    hi = lo
                path = path + [(lo, hi)]
            decl.append(V(name, "Master", fresh_id(), path))
            masters.append((name, path + [name]))
        for l in range(nl):
            name = "L%d" % l
            ty = rnd.choice(TYPES[:5])
            if rnd.random() < 0.85:
                pn, ppath = rnd.choice(masters)
                path = list(ppath)
                if rnd.random() < 0.15:
                    path = path + [(rnd.choice([None, 1]), rnd.choice([None, 3]))]
            elif rnd.random() < 0.4:
                # a global element of the user's own
                lo = rnd.choice([None, 0, 1, 2])
                hi = rnd.choice([None, 2, 4])
                path = [(lo, hi)]
            else:
                path = []
            decl.append(V(name, ty, fresh_id(), path))
        rnd.shuffle(decl)
        out["seeded_%d_%d" % (seed, k)] = decl
    return out


def part_str(p):
    if isinstance(p, str):
        return p
    lo, hi = p
    return "(%s-%s)" % ("" if lo is None else lo, "" if hi is None else hi)


def render_attr(decl, derive="Clone, Debug, PartialEq"):
    lines = ["    use ebml_iterable::specs::{ebml_specification, TagDataType};", "    #[ebml_specification]", "    #[derive(%s)]" % derive, "    pub enum S {"]
    for name, ty, id_, path in decl:
        a = "        #[id(0x%x)] #[data_type(TagDataType::%s)]" % (id_, ty)
        if path:
            a += " #[doc_path(%s)]" % "/".join(part_str(p) for p in path)
        lines.append("%s %s," % (a, name))
    lines.append("    }")
    return "\n".join(lines)


def render_easy(decl, derive="Clone, Debug, PartialEq"):
    lines = ["    use ebml_iterable::specs::{easy_ebml, TagDataType};", "    easy_ebml! {", "        #[derive(%s)]" % derive, "        pub enum S {"]
    for name, ty, id_, path in decl:
        lines.append("            %s: %s = 0x%x," % ("/".join([part_str(p) for p in path] + [name]), ty, id_))
    lines.append("        }")
    lines.append("    }")
    return "\n".join(lines)


def expected(decl):
    """what the generated specification must say, computed from the table"""
    allv = list(decl) + [V(*g) for g in GLOBALS]
    ids = {name: id_ for name, ty, id_, path in allv}
    return {
        "variants": [(name, ty) for name, ty, id_, path in allv] + [("RawTag", None)],
        "type_by_id": {id_: ty for name, ty, id_, path in allv},
        "path_by_id": {id_: [("id", ids[p]) if isinstance(p, str) else ("global", p[0], p[1]) for p in path] for name, ty, id_, path in allv},
        "id_by_variant": {name: id_ for name, ty, id_, path in allv},
        "index": {name: i for i, (name, ty, id_, path) in enumerate(allv)},
    }


# ----------------------------------------------------------------------------------------------------
# rejection witnesses: (class, bad declaration source, twin differing in one token that must compile)
# ----------------------------------------------------------------------------------------------------
def _w(body):
    return "    use ebml_iterable::specs::{ebml_specification, TagDataType};\n    #[ebml_specification]\n    #[derive(Clone)]\n    pub enum S {\n%s\n    }" % body


def _e(body):
    return "    use ebml_iterable::specs::{easy_ebml, TagDataType};\n    easy_ebml! {\n        #[derive(Clone)]\n        pub enum S {\n%s\n        }\n    }" % body


M, U = "TagDataType::Master", "TagDataType::UnsignedInt"
WITNESSES = [
    ("duplicate-id",
     _w("        #[id(0x81)] #[data_type(%s)] A,\n        #[id(0x81)] #[data_type(%s)] B," % (M, U)),
     _w("        #[id(0x81)] #[data_type(%s)] A,\n        #[id(0x82)] #[data_type(%s)] B," % (M, U))),
    ("duplicate-of-global-id",
     _w("        #[id(0xec)] #[data_type(%s)] A," % U),
     _w("        #[id(0xed)] #[data_type(%s)] A," % U)),
    ("unknown-parent",
     _w("        #[id(0x81)] #[data_type(%s)] A,\n        #[id(0x82)] #[data_type(%s)] #[doc_path(Z)] B," % (M, U)),
     _w("        #[id(0x81)] #[data_type(%s)] A,\n        #[id(0x82)] #[data_type(%s)] #[doc_path(A)] B," % (M, U))),
    ("non-master-parent-of-leaf",
     _w("        #[id(0x81)] #[data_type(%s)] A,\n        #[id(0x82)] #[data_type(%s)] #[doc_path(A)] B," % (U, U)),
     _w("        #[id(0x81)] #[data_type(%s)] A,\n        #[id(0x82)] #[data_type(%s)] #[doc_path(A)] B," % (M, U))),
    ("non-master-parent-of-master",
     _w("        #[id(0x81)] #[data_type(%s)] A,\n        #[id(0x82)] #[data_type(%s)] #[doc_path(A)] B," % (U, M)),
     _w("        #[id(0x81)] #[data_type(%s)] A,\n        #[id(0x82)] #[data_type(%s)] #[doc_path(A)] B," % (M, M))),
    ("path-contradicts-parent-path",
     _w("        #[id(0x81)] #[data_type(%s)] A,\n        #[id(0x83)] #[data_type(%s)] X,\n        #[id(0x82)] #[data_type(%s)] #[doc_path(A)] B,\n        #[id(0x84)] #[data_type(%s)] #[doc_path(X/B)] C," % (M, M, M, U)),
     _w("        #[id(0x81)] #[data_type(%s)] A,\n        #[id(0x83)] #[data_type(%s)] X,\n        #[id(0x82)] #[data_type(%s)] #[doc_path(A)] B,\n        #[id(0x84)] #[data_type(%s)] #[doc_path(A/B)] C," % (M, M, M, U))),
    ("master-path-contradicts-parent-path",
     _w("        #[id(0x81)] #[data_type(%s)] A,\n        #[id(0x83)] #[data_type(%s)] X,\n        #[id(0x82)] #[data_type(%s)] #[doc_path(A)] B,\n        #[id(0x84)] #[data_type(%s)] #[doc_path(X/B)] C," % (M, M, M, M)),
     _w("        #[id(0x81)] #[data_type(%s)] A,\n        #[id(0x83)] #[data_type(%s)] X,\n        #[id(0x82)] #[data_type(%s)] #[doc_path(A)] B,\n        #[id(0x84)] #[data_type(%s)] #[doc_path(A/B)] C," % (M, M, M, M))),
    ("path-inserts-segment-before-parent",
     _w("        #[id(0x81)] #[data_type(%s)] A,\n        #[id(0x83)] #[data_type(%s)] #[doc_path(A)] X,\n        #[id(0x82)] #[data_type(%s)] #[doc_path(A)] B,\n        #[id(0x84)] #[data_type(%s)] #[doc_path(A/X/B)] C," % (M, M, M, U)),
     _w("        #[id(0x81)] #[data_type(%s)] A,\n        #[id(0x83)] #[data_type(%s)] #[doc_path(A)] X,\n        #[id(0x82)] #[data_type(%s)] #[doc_path(A)] B,\n        #[id(0x84)] #[data_type(%s)] #[doc_path(A/B)] C," % (M, M, M, U))),
    ("path-shorter-than-parent-path",
     _w("        #[id(0x81)] #[data_type(%s)] A,\n        #[id(0x82)] #[data_type(%s)] #[doc_path(A)] B,\n        #[id(0x83)] #[data_type(%s)] #[doc_path(A/B)] C,\n        #[id(0x84)] #[data_type(%s)] #[doc_path(C)] D," % (M, M, M, U)),
     _w("        #[id(0x81)] #[data_type(%s)] A,\n        #[id(0x82)] #[data_type(%s)] #[doc_path(A)] B,\n        #[id(0x83)] #[data_type(%s)] #[doc_path(A/B)] C,\n        #[id(0x84)] #[data_type(%s)] #[doc_path(A/B/C)] D," % (M, M, M, U))),
    ("non-master-parent-before-trailing-placeholder",
     _w("        #[id(0x81)] #[data_type(%s)] A,\n        #[id(0x82)] #[data_type(%s)] #[doc_path(A/(1-))] B," % (U, U)),
     _w("        #[id(0x81)] #[data_type(%s)] A,\n        #[id(0x82)] #[data_type(%s)] #[doc_path(A/(1-))] B," % (M, U))),
    ("path-contradicts-parent-path-before-trailing-placeholder",
     _w("        #[id(0x81)] #[data_type(%s)] A,\n        #[id(0x83)] #[data_type(%s)] X,\n        #[id(0x82)] #[data_type(%s)] #[doc_path(A)] B,\n        #[id(0x84)] #[data_type(%s)] #[doc_path(X/B/(-2))] C," % (M, M, M, U)),
     _w("        #[id(0x81)] #[data_type(%s)] A,\n        #[id(0x83)] #[data_type(%s)] X,\n        #[id(0x82)] #[data_type(%s)] #[doc_path(A)] B,\n        #[id(0x84)] #[data_type(%s)] #[doc_path(A/B/(-2))] C," % (M, M, M, U))),
    ("zero-maximum",
     _w("        #[id(0x81)] #[data_type(%s)] A,\n        #[id(0x82)] #[data_type(%s)] #[doc_path(A/(-0))] B," % (M, U)),
     _w("        #[id(0x81)] #[data_type(%s)] A,\n        #[id(0x82)] #[data_type(%s)] #[doc_path(A/(-1))] B," % (M, U))),
    ("adjacent-placeholders",
     _w("        #[id(0x81)] #[data_type(%s)] A,\n        #[id(0x82)] #[data_type(%s)] #[doc_path(A/(1-)/(-2))] B," % (M, U)),
     _w("        #[id(0x81)] #[data_type(%s)] A,\n        #[id(0x82)] #[data_type(%s)] #[doc_path(A/(1-2))] B," % (M, U))),
    ("missing-id",
     _w("        #[data_type(%s)] A," % U),
     _w("        #[id(0x81)] #[data_type(%s)] A," % U)),
    ("missing-data-type",
     _w("        #[id(0x81)] A,"),
     _w("        #[id(0x81)] #[data_type(%s)] A," % U)),
    ("unknown-data-type",
     _w("        #[id(0x81)] #[data_type(TagDataType::Text)] A,"),
     _w("        #[id(0x81)] #[data_type(TagDataType::Utf8)] A,")),
    ("duplicate-attribute",
     _w("        #[id(0x81)] #[id(0x82)] #[data_type(%s)] A," % U),
     _w("        #[id(0x81)] #[data_type(%s)] A," % U)),
    ("unknown-attribute",
     _w("        #[id(0x81)] #[data_type(%s)] A,\n        #[id(0x82)] #[data_type(%s)] #[docpath(A)] B," % (M, U)),
     _w("        #[id(0x81)] #[data_type(%s)] A,\n        #[id(0x82)] #[data_type(%s)] #[doc_path(A)] B," % (M, U))),
    ("easy-unknown-data-type",
     _e("            A: Text = 0x81,"),
     _e("            A: Utf8 = 0x81,")),
    ("easy-duplicate-id",
     _e("            A: Master = 0x81,\n            A/B: UnsignedInt = 0x81,"),
     _e("            A: Master = 0x81,\n            A/B: UnsignedInt = 0x82,")),
    ("easy-non-master-parent",
     _e("            A: Utf8 = 0x81,\n            A/B: UnsignedInt = 0x82,"),
     _e("            A: Master = 0x81,\n            A/B: UnsignedInt = 0x82,")),
    ("easy-ends-in-placeholder",
     _e("            A: Master = 0x81,\n            A/(1-): UnsignedInt = 0x82,"),
     _e("            A: Master = 0x81,\n            A/(1-)/B: UnsignedInt = 0x82,")),
]
