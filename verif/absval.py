"""absval — abstract values for the μMIR abstract interpreter.

Values are trees.  Scalar leaves (`Int`) carry an interval and a count of known
trailing zero bits; their *identity* for the relational store is the location
(cell id + path) at which they are stored.  All classes are treated as immutable:
updates build new trees.
"""

U64_MAX = (1 << 64) - 1
ISIZE_MAX = (1 << 63) - 1


def int_range(bits, signed):
    if signed:
        return -(1 << (bits - 1)), (1 << (bits - 1)) - 1
    return 0, (1 << bits) - 1


class AVal:
    kind = "?"

    def is_bot(self):
        return False


class Bot(AVal):
    kind = "bot"

    def is_bot(self):
        return True

    def __repr__(self):
        return "⊥"

    def __eq__(self, o):
        return isinstance(o, Bot)

    def __hash__(self):
        return 1


BOT = Bot()


class Int(AVal):
    kind = "int"
    __slots__ = ("lo", "hi", "bits", "signed", "tz")

    def __init__(self, lo, hi, bits=64, signed=False, tz=0):
        self.lo = lo
        self.hi = hi
        self.bits = bits
        self.signed = signed
        self.tz = tz

    @staticmethod
    def top(bits=64, signed=False):
        lo, hi = int_range(bits, signed)
        return Int(lo, hi, bits, signed)

    @staticmethod
    def const(v, bits=64, signed=False):
        tz = 64 if v == 0 else ((v & -v).bit_length() - 1)
        return Int(v, v, bits, signed, tz)

    @staticmethod
    def boolean(lo=0, hi=1):
        return Int(lo, hi, 1, False)

    def is_const(self):
        return self.lo == self.hi

    def is_empty(self):
        return self.lo > self.hi

    def with_range(self, lo, hi):
        return Int(lo, hi, self.bits, self.signed, self.tz if lo != hi else Int.const(lo).tz)

    def type_range(self):
        return int_range(self.bits if self.bits > 1 else 1, self.signed) if self.bits > 1 else (0, 1)

    def __eq__(self, o):
        return isinstance(o, Int) and (self.lo, self.hi, self.bits, self.signed, self.tz) == (o.lo, o.hi, o.bits, o.signed, o.tz)

    def __hash__(self):
        return hash((self.lo, self.hi, self.bits, self.signed))

    def __repr__(self):
        t = ("i" if self.signed else "u") + str(self.bits)
        if self.lo == self.hi:
            return "%d%s" % (self.lo, t)
        tr = int_range(self.bits, self.signed) if self.bits > 1 else (0, 1)
        if (self.lo, self.hi) == tr:
            return "⊤%s%s" % (t, ("/tz%d" % self.tz) if self.tz else "")
        return "[%d,%d]%s%s" % (self.lo, self.hi, t, ("/tz%d" % self.tz) if self.tz else "")


class Top(AVal):
    """unknown value of a (possibly unknown) type; `ty` is the μMIR type dict or None"""
    kind = "top"
    __slots__ = ("ty",)

    def __init__(self, ty=None):
        self.ty = ty

    def __eq__(self, o):
        return isinstance(o, Top)

    def __hash__(self):
        return 2

    def __repr__(self):
        return "⊤(%s)" % (self.ty.get("s", "?")[:40] if self.ty else "?")


class Struct(AVal):
    """tuples, structs, closures (captures): positional fields"""
    kind = "struct"
    __slots__ = ("path", "fields")

    def __init__(self, path, fields):
        self.path = path
        self.fields = tuple(fields)

    def with_field(self, i, v):
        f = list(self.fields)
        while len(f) <= i:
            f.append(Top())
        f[i] = v
        return Struct(self.path, f)

    def __eq__(self, o):
        return isinstance(o, Struct) and self.path == o.path and self.fields == o.fields

    def __hash__(self):
        return hash((self.path, len(self.fields)))

    def __repr__(self):
        return "%s{%s}" % (self.path or "", ", ".join(repr(f) for f in self.fields))


class Enum(AVal):
    """set of possible variants, each with its payload fields"""
    kind = "enum"
    __slots__ = ("path", "variants")

    def __init__(self, path, variants):
        self.path = path
        self.variants = dict(variants)   # idx -> tuple(fields)

    def only(self, idx):
        if idx in self.variants:
            return Enum(self.path, {idx: self.variants[idx]})
        return BOT

    def without(self, idxs):
        v = {i: f for i, f in self.variants.items() if i not in idxs}
        if not v:
            return BOT
        return Enum(self.path, v)

    def __eq__(self, o):
        return isinstance(o, Enum) and self.path == o.path and self.variants == o.variants

    def __hash__(self):
        return hash((self.path, tuple(sorted(self.variants))))

    def __repr__(self):
        return "%s<%s>" % (self.path, " | ".join("%s(%s)" % (i, ",".join(repr(x) for x in f)) for i, f in sorted(self.variants.items())))


class Ref(AVal):
    """reference / raw pointer / Box alias to a location (cell id, path); target None = unknown"""
    kind = "ref"
    __slots__ = ("cell", "path", "mut")

    def __init__(self, cell, path=(), mut=False):
        self.cell = cell
        self.path = tuple(path)
        self.mut = mut

    def __eq__(self, o):
        return isinstance(o, Ref) and self.cell == o.cell and self.path == o.path

    def __hash__(self):
        return hash((self.cell, self.path))

    def __repr__(self):
        return "&%s%s" % (self.cell, "".join(".%s" % (p,) for p in self.path))


class Arr(AVal):
    """array / slice / boxed slice / Vec / VecDeque / str contents:
    len (Int leaf at path 'len'), one summary element, and optional constant-index cells.
    `view_of`: (cell, path, offset Int) when this is a sub-slice view of another Arr (writes go through)."""
    kind = "arr"
    __slots__ = ("len", "elem", "cells", "container", "view_of")

    def __init__(self, length, elem, cells=None, container="slice", view_of=None):
        self.len = length
        self.elem = elem
        self.cells = dict(cells) if cells else {}
        self.container = container
        self.view_of = view_of

    def with_len(self, length):
        return Arr(length, self.elem, self.cells, self.container, self.view_of)

    def with_elem(self, elem, cells=None):
        return Arr(self.len, elem, self.cells if cells is None else cells, self.container, self.view_of)

    def __eq__(self, o):
        return isinstance(o, Arr) and self.len == o.len and self.elem == o.elem and self.cells == o.cells and self.container == o.container

    def __hash__(self):
        return hash((self.len, self.container))

    def __repr__(self):
        c = ""
        if self.cells:
            c = " " + ",".join("%d:%r" % kv for kv in sorted(self.cells.items()))
        return "%s[len=%r; %r%s]" % (self.container, self.len, self.elem, c)


class Iter(AVal):
    """modelled iterator.
    kind: 'slice' (remaining Int, elem AVal, src), 'range' (start Int, end Int), 'opaque'
    Adaptors take/skip are folded into `remaining` at construction."""
    kind = "iter"
    __slots__ = ("ikind", "remaining", "elem", "start", "end", "extra", "cells", "pos", "seen", "last")

    def __init__(self, ikind, remaining=None, elem=None, start=None, end=None, extra=None, cells=None, pos=None, seen=None, last=None):
        self.ikind = ikind
        self.remaining = remaining
        self.elem = elem
        self.start = start
        self.end = end
        self.extra = extra
        self.cells = cells if cells else None      # known elements by absolute index (slice iterators)
        self.pos = pos if cells else None          # absolute index of the next element, when known
        # loop-universal inference (slice iterators by shared reference over a whole container): `seen` over-approximates every item
        # yielded so far, each as refined by the code that ran until control came back to next(); `last` is the cell of the item yielded
        # last, whose refinement is still in progress.  seen is None: not tracked.
        self.seen = seen
        self.last = last

    def __eq__(self, o):
        return (isinstance(o, Iter) and self.ikind == o.ikind and self.remaining == o.remaining and self.elem == o.elem
                and self.start == o.start and self.end == o.end and self.extra == o.extra and self.pos == o.pos and self.cells == o.cells
                and self.seen == o.seen and self.last == o.last)

    def __hash__(self):
        return hash((self.ikind, self.remaining, self.start, self.end))

    def __repr__(self):
        if self.ikind == "range":
            return "range(%r..%r)" % (self.start, self.end)
        return "iter<%s rem=%r elem=%r>" % (self.ikind, self.remaining, self.elem)


class Closure(AVal):
    kind = "closure"
    __slots__ = ("def_path", "captures", "env")

    def __init__(self, def_path, captures, env=()):
        self.def_path = def_path
        self.captures = tuple(captures)
        self.env = tuple(env)      # const-generic environment of the creating frame

    def __eq__(self, o):
        return isinstance(o, Closure) and self.def_path == o.def_path and self.captures == o.captures

    def __hash__(self):
        return hash(self.def_path)

    def __repr__(self):
        return "closure %s[%s]" % (self.def_path.split("::")[-1], ",".join(repr(c) for c in self.captures))


class FnItem(AVal):
    kind = "fn"
    __slots__ = ("callee",)

    def __init__(self, callee):
        self.callee = callee

    def __eq__(self, o):
        return isinstance(o, FnItem) and self.callee.get("path") == o.callee.get("path")

    def __hash__(self):
        return hash(self.callee.get("path"))

    def __repr__(self):
        return "fn %s" % self.callee.get("path")


UNIT = Struct("()", ())


def _join_seen(a, b, j):
    """seen/last of the join of two iterators: a side that has yielded nothing yet contributes nothing; two different pending items
    (two call sites drawing from one iterator) end the tracking"""
    if a.seen is None or b.seen is None:
        return None, None
    if a.last is not None and b.last is not None and a.last != b.last:
        return None, None
    return j(a.seen, b.seen), (a.last if a.last is not None else b.last)


def meet_val(a, b):
    """an over-approximation of γ(a) ∩ γ(b) that is ⊑ a; BOT when the intersection is certainly empty"""
    if b is None or isinstance(b, Top):
        return a
    if isinstance(a, Top):
        return b
    if a.is_bot() or b.is_bot():
        return BOT
    if isinstance(a, Int) and isinstance(b, Int) and a.bits == b.bits and a.signed == b.signed:
        lo, hi = max(a.lo, b.lo), min(a.hi, b.hi)
        if lo > hi:
            return BOT
        return Int(lo, hi, a.bits, a.signed, max(a.tz, b.tz)) if (lo, hi) != (a.lo, a.hi) else a
    if isinstance(a, Enum) and isinstance(b, Enum) and a.path == b.path:
        keep = {}
        for i, pl in a.variants.items():
            if i not in b.variants:
                continue
            pb = b.variants[i]
            if len(pl) != len(pb):
                keep[i] = pl
                continue
            m = tuple(meet_val(x, y) for x, y in zip(pl, pb))
            if any(x.is_bot() for x in m):
                continue
            keep[i] = m
        if not keep:
            return BOT
        return Enum(a.path, keep)
    if isinstance(a, Struct) and isinstance(b, Struct) and a.path == b.path and len(a.fields) == len(b.fields):
        m = [meet_val(x, y) for x, y in zip(a.fields, b.fields)]
        if any(x.is_bot() for x in m):
            return BOT
        return Struct(a.path, m)
    return a


def join_int(a, b):
    if a.is_empty():
        return b
    if b.is_empty():
        return a
    return Int(min(a.lo, b.lo), max(a.hi, b.hi), a.bits, a.signed, min(a.tz, b.tz))


def join_val(a, b, depth=0):
    """pointwise join of value trees (no relational part)"""
    if a is b:
        return a
    if a.is_bot():
        return b
    if b.is_bot():
        return a
    if isinstance(a, Top):
        return a
    if isinstance(b, Top):
        return b
    if isinstance(a, Int) and isinstance(b, Int):
        if a.bits != b.bits or a.signed != b.signed:
            return Top()
        return join_int(a, b)
    if isinstance(a, Struct) and isinstance(b, Struct) and a.path == b.path and len(a.fields) == len(b.fields):
        return Struct(a.path, [join_val(x, y, depth + 1) for x, y in zip(a.fields, b.fields)])
    if isinstance(a, Enum) and isinstance(b, Enum) and a.path == b.path:
        out = {}
        for i in set(a.variants) | set(b.variants):
            if i in a.variants and i in b.variants:
                fa, fb = a.variants[i], b.variants[i]
                if len(fa) == len(fb):
                    out[i] = tuple(join_val(x, y, depth + 1) for x, y in zip(fa, fb))
                else:
                    out[i] = tuple(Top() for _ in fa)
            else:
                out[i] = a.variants.get(i, b.variants.get(i))
        return Enum(a.path, out)
    if isinstance(a, Ref) and isinstance(b, Ref):
        if a == b:
            return a
        return Ref(None, (), a.mut or b.mut)
    if isinstance(a, Arr) and isinstance(b, Arr):
        cells = {}
        for k in set(a.cells) & set(b.cells):
            cells[k] = join_val(a.cells[k], b.cells[k], depth + 1)
        # the summary element of a certainly empty array describes nothing
        ea_empty = isinstance(a.len, Int) and a.len.hi == 0 and not a.cells
        eb_empty = isinstance(b.len, Int) and b.len.hi == 0 and not b.cells
        if ea_empty and not eb_empty:
            elem = b.elem
        elif eb_empty and not ea_empty:
            elem = a.elem
        else:
            elem = join_val(a.elem, b.elem, depth + 1)
        # cells only on one side degrade into the summary element
        for k in set(a.cells) ^ set(b.cells):
            elem = join_val(elem, a.cells.get(k, b.cells.get(k)), depth + 1)
        ln = join_val(a.len, b.len, depth + 1)
        return Arr(ln, elem, cells, a.container if a.container == b.container else "slice",
                   a.view_of if a.view_of == b.view_of else None)
    if isinstance(a, Iter) and isinstance(b, Iter) and a.ikind == b.ikind:
        def j(x, y):
            if x is None or y is None:
                return None
            if isinstance(x, tuple) or isinstance(y, tuple):      # source location of a slice iterator
                return x if x == y else None
            return join_val(x, y, depth + 1)
        keep = a.pos is not None and a.pos == b.pos and a.cells == b.cells
        seen, last = _join_seen(a, b, lambda x, y: join_val(x, y, depth + 1))
        return Iter(a.ikind, j(a.remaining, b.remaining), j(a.elem, b.elem), j(a.start, b.start), j(a.end, b.end),
                    a.extra if a.extra == b.extra else None, a.cells if keep else None, a.pos if keep else None, seen, last)
    if isinstance(a, Closure) and isinstance(b, Closure) and a.def_path == b.def_path and len(a.captures) == len(b.captures):
        return Closure(a.def_path, [join_val(x, y, depth + 1) for x, y in zip(a.captures, b.captures)], a.env)
    if isinstance(a, FnItem) and isinstance(b, FnItem) and a == b:
        return a
    return Top()


def widen_int(old, new, thresholds):
    """standard interval widening with thresholds"""
    lo, hi = old.lo, old.hi
    tlo, thi = int_range(old.bits, old.signed) if old.bits > 1 else (0, 1)
    if new.lo < old.lo:
        cands = [t for t in thresholds if t <= new.lo]
        lo = max(cands) if cands else tlo
        lo = max(lo, tlo)
    if new.hi > old.hi:
        cands = [t for t in thresholds if t >= new.hi]
        hi = min(cands) if cands else thi
        hi = min(hi, thi)
    return Int(lo, hi, old.bits, old.signed, min(old.tz, new.tz))


def widen_val(old, new, thresholds):
    if old.is_bot():
        return new
    if new.is_bot():
        return old
    if isinstance(old, Int) and isinstance(new, Int) and old.bits == new.bits and old.signed == new.signed:
        return widen_int(old, new, thresholds)
    if isinstance(old, Struct) and isinstance(new, Struct) and old.path == new.path and len(old.fields) == len(new.fields):
        return Struct(old.path, [widen_val(x, y, thresholds) for x, y in zip(old.fields, new.fields)])
    if isinstance(old, Enum) and isinstance(new, Enum) and old.path == new.path:
        out = {}
        for i in set(old.variants) | set(new.variants):
            if i in old.variants and i in new.variants and len(old.variants[i]) == len(new.variants[i]):
                out[i] = tuple(widen_val(x, y, thresholds) for x, y in zip(old.variants[i], new.variants[i]))
            else:
                out[i] = old.variants.get(i, new.variants.get(i))
        return Enum(old.path, out)
    if isinstance(old, Arr) and isinstance(new, Arr):
        j = join_val(old, new)
        if isinstance(j, Arr):
            return Arr(widen_val(old.len, j.len, thresholds) if isinstance(old.len, Int) and isinstance(j.len, Int) else j.len,
                       widen_val(old.elem, j.elem, thresholds), j.cells, j.container, j.view_of)
        return j
    if isinstance(old, Iter) and isinstance(new, Iter) and old.ikind == new.ikind:
        def w(x, y):
            if x is None or y is None:
                return None
            if isinstance(x, tuple) or isinstance(y, tuple):
                return x if x == y else None
            return widen_val(x, y, thresholds)
        keep = old.pos is not None and old.pos == new.pos and old.cells == new.cells
        seen, last = _join_seen(old, new, lambda x, y: widen_val(x, y, thresholds))
        return Iter(old.ikind, w(old.remaining, new.remaining), w(old.elem, new.elem), w(old.start, new.start), w(old.end, new.end),
                    old.extra if old.extra == new.extra else None, old.cells if keep else None, old.pos if keep else None, seen, last)
    return join_val(old, new)


def leq_val(a, b):
    """a ⊑ b (non-relational part)"""
    if a is b or a.is_bot():
        return True
    if b.is_bot():
        return False
    if isinstance(b, Top):
        return True
    if isinstance(a, Top):
        return False
    if isinstance(a, Int) and isinstance(b, Int):
        return a.is_empty() or (b.lo <= a.lo and a.hi <= b.hi and b.tz <= a.tz)
    if isinstance(a, Struct) and isinstance(b, Struct):
        return a.path == b.path and len(a.fields) == len(b.fields) and all(leq_val(x, y) for x, y in zip(a.fields, b.fields))
    if isinstance(a, Enum) and isinstance(b, Enum):
        if a.path != b.path:
            return False
        for i, f in a.variants.items():
            if i not in b.variants:
                return False
            g = b.variants[i]
            if len(f) != len(g) or not all(leq_val(x, y) for x, y in zip(f, g)):
                return False
        return True
    if isinstance(a, Ref) and isinstance(b, Ref):
        return a == b or b.cell is None
    if isinstance(a, Arr) and isinstance(b, Arr):
        if not leq_val(a.len, b.len) or not leq_val(a.elem, b.elem):
            return False
        for k, v in b.cells.items():
            if k not in a.cells:
                if not leq_val(a.elem, v):
                    return False
            elif not leq_val(a.cells[k], v):
                return False
        for k, v in a.cells.items():
            if k not in b.cells and not leq_val(v, b.elem):
                return False
        return True
    if isinstance(a, Iter) and isinstance(b, Iter):
        if a.ikind != b.ikind:
            return False

        def l(x, y):
            if y is None:
                return True
            if x is None:
                return False
            if isinstance(x, tuple) or isinstance(y, tuple):
                return x == y
            return leq_val(x, y)
        if b.pos is not None and (a.pos != b.pos or a.cells != b.cells):
            return False
        if b.seen is not None and (a.seen is None or not leq_val(a.seen, b.seen) or (a.last is not None and a.last != b.last)):
            return False
        return l(a.remaining, b.remaining) and l(a.elem, b.elem) and l(a.start, b.start) and l(a.end, b.end)
    if isinstance(a, Closure) and isinstance(b, Closure):
        return a.def_path == b.def_path and len(a.captures) == len(b.captures) and all(leq_val(x, y) for x, y in zip(a.captures, b.captures))
    return a == b
