"""models2 — Option/Result combinators, numerics, conversions, I/O and specification-trait models."""
from absval import (Arr, BOT, Bot, Closure, Enum, FnItem, Int, Iter, Ref, Struct, Top, UNIT, ISIZE_MAX, int_range, join_val)
from absint import Infeasible, get_at, set_at, int_leaves
from lin import LinForm
import mirlib
from mirlib import strip_generics
from models import (MODELS, PREFIX, model, prefix_model, arr_at, len_lin, usize, new_tmp, opt_none, opt_some, res_ok, res_err,
                    OPTION, RESULT, CFLOW, prove_le)


def enum_arg(c, i=0):
    """-> (Enum value or None, loc of the enum, via_ref)"""
    v, loc = c.arg(i)
    if isinstance(v, Ref):
        t, tloc = c.deref(v)
        return (t if isinstance(t, Enum) else None), tloc, True
    return (v if isinstance(v, Enum) else None), loc, False


def payload_loc(loc, idx, k=0):
    if loc is None:
        return None
    return (loc[0], loc[1] + (("v", idx), k))


def ret_payload(c, st, val, loc):
    lin = c.I.lin_of(st, val, loc) if isinstance(val, Int) else None
    c.ret(val, lin, loc, st=st)


def wrap_payload(c, st, mk, idx, val, loc):
    """return enum variant idx (built by mk) around payload, keeping scalar equalities"""
    ex = []
    if loc is not None:
        if isinstance(val, Int):
            l = c.I.lin_of(st, val, loc)
            if l is not None:
                ex.append(((("v", idx), 0), l))
        else:
            for p, leaf in int_leaves(val):
                if not leaf.is_const() and st.leaf((loc[0], loc[1] + p)) is not None:
                    ex.append(((("v", idx), 0) + p, LinForm.var((loc[0], loc[1] + p))))
    if loc is not None:
        ex.append(("reloc", loc, (("v", idx), 0)))
    c.ret(mk(val), st=st, extras=tuple(ex))


def split_enum(c, e, loc):
    """yield (idx, payload tuple, state) for each possible variant, with the state refined"""
    idxs = sorted(e.variants)
    for n, idx in enumerate(idxs):
        s = c.st if n == len(idxs) - 1 else c.fork()
        if loc is not None and len(idxs) > 1:
            cur = c.I.read_loc(s, loc)
            if isinstance(cur, Enum):
                nv = cur.only(idx)
                if nv.is_bot():
                    continue
                s.cells[loc[0]] = set_at(s.cells[loc[0]], loc[1], nv)
                try:
                    s.apply_guard(loc, ("v", idx))
                except Infeasible:
                    continue
                cur2 = c.I.read_loc(s, loc)
                if isinstance(cur2, Enum) and idx in cur2.variants:
                    yield idx, cur2.variants[idx], s
                    continue
        yield idx, e.variants[idx], s


# ---------------------------------------------------------------------------- predicates
@model("std::option::Option::is_some", "std::option::Option::is_none", "std::result::Result::is_ok", "std::result::Result::is_err")
def m_is_variant(c):
    e, loc, _ = enum_arg(c)
    nm = c.name.split("::")[-1]
    idx = {"is_some": 1, "is_none": 0, "is_ok": 0, "is_err": 1}[nm]
    if e is None:
        c.ret(Int.boolean())
        return
    if len(e.variants) == 1:
        c.ret(Int.const(1 if idx in e.variants else 0, 1, False))
        return
    c.ret(Int.boolean(), defn=("isvar", loc, idx, True) if loc is not None else None)


# ---------------------------------------------------------------------------- unwrap family
@model("std::option::Option::unwrap", "std::option::Option::expect", "std::result::Result::unwrap", "std::result::Result::expect")
def m_unwrap(c):
    e, loc, _ = enum_arg(c)
    is_opt = "Option" in c.name
    good = 1 if is_opt else 0
    if e is None:
        c.oblige("PRECOND", "%s on a value that may be %s" % (c.name.split("::")[-1], "None" if is_opt else "Err"), False)
        c.ret_top()
        return
    bad = [i for i in e.variants if i != good]
    c.oblige("PRECOND", "%s on a value that may be %s" % (c.name.split("::")[-1], "None" if is_opt else "Err"), not bad)
    if good not in e.variants:
        return
    if loc is not None and bad:
        c.st.cells[loc[0]] = set_at(c.st.cells[loc[0]], loc[1], e.only(good))
        try:
            c.st.apply_guard(loc, ("v", good))
        except Infeasible:
            return
        e2 = c.I.read_loc(c.st, loc)
        if isinstance(e2, Enum) and good in e2.variants:
            e = e2
    ret_payload(c, c.st, e.variants[good][0], payload_loc(loc, good))


@model("std::option::Option::unwrap_or", "std::result::Result::unwrap_or")
def m_unwrap_or(c):
    e, loc, _ = enum_arg(c)
    d, dloc = c.arg(1)
    good = 1 if "Option" in c.name else 0
    if e is None:
        c.ret_top()
        return
    for idx, pay, s in split_enum(c, e, loc):
        if idx == good:
            ret_payload(c, s, pay[0], payload_loc(loc, good))
        else:
            v, vl = c.arg(1, s)
            ret_payload(c, s, v, vl)


@model("std::option::Option::unwrap_or_default", "std::result::Result::unwrap_or_default")
def m_unwrap_or_default(c):
    e, loc, _ = enum_arg(c)
    good = 1 if "Option" in c.name else 0
    ty = c.ret_ty()
    if e is None:
        c.ret_top()
        return
    for idx, pay, s in split_enum(c, e, loc):
        if idx == good:
            ret_payload(c, s, pay[0], payload_loc(loc, good))
        else:
            if ty and ty.get("k") in ("int", "uint"):
                c.ret(Int.const(0, ty["bits"], ty["k"] == "int"), st=s)
            else:
                c.ret(c.I.top_of(ty, s, ("dflt", c.frame.uid, c.bb)), st=s)


def run_closure_ret(c, s, clo, args):
    """call closure in state s and write its result to the call's destination (per exit state)"""
    r = c.I.call_closure(c, clo, args, st=s)
    if r is None:
        c.ret_top(st=s)
        return
    for (s2, rv, rloc, nf) in r:
        c.I.write_place(s2, c.frame, c.term["dest"], rv, c.I.lin_of(s2, rv, rloc) if isinstance(rv, Int) else None,
                        rloc if not isinstance(rv, Int) else None)
        c.I.finish_closure(s2, nf)
        c.results.append(s2)


@model("std::option::Option::unwrap_or_else", "std::result::Result::unwrap_or_else")
def m_unwrap_or_else(c):
    e, loc, _ = enum_arg(c)
    clo, _ = c.arg(1)
    is_opt = "Option" in c.name
    good = 1 if is_opt else 0
    if e is None:
        c.ret_top()
        return
    for idx, pay, s in split_enum(c, e, loc):
        if idx == good:
            ret_payload(c, s, pay[0], payload_loc(loc, good))
        else:
            args = [] if is_opt else [(pay[0], payload_loc(loc, idx))]
            run_closure_ret(c, s, clo, args)


def closure_then_wrap(c, s, clo, args, mk, idx):
    r = c.I.call_closure(c, clo, args, st=s)
    if r is None:
        c.ret(mk(Top()), st=s)
        return
    for (s2, rv, rloc, nf) in r:
        ex = []
        if isinstance(rv, Int):
            l = c.I.lin_of(s2, rv, rloc)
            if l is not None:
                ex.append(((("v", idx), 0), l))
        elif rloc is not None:
            # a tuple / struct / enum handed back by the closure: its scalar leaves stay related to what they were computed from
            for pth, leaf in int_leaves(rv):
                if not leaf.is_const() and s2.leaf((rloc[0], rloc[1] + pth)) is not None:
                    ex.append(((("v", idx), 0) + pth, LinForm.var((rloc[0], rloc[1] + pth))))
        c.I.write_place(s2, c.frame, c.term["dest"], mk(rv))
        dloc = c.I.resolve(s2, c.frame, c.term["dest"])
        if dloc is not None:
            for sub, l in ex:
                if not l.is_const():
                    s2.cons.add_eq(LinForm.var((dloc[0], dloc[1] + sub)) - l)
            if rloc is not None and not isinstance(rv, Int):
                s2.relocate_guards(rloc, (dloc[0], dloc[1] + (("v", idx), 0)))
        c.I.finish_closure(s2, nf)
        c.results.append(s2)


@model("std::option::Option::map", "std::result::Result::map")
def m_map(c):
    e, loc, _ = enum_arg(c)
    clo, _ = c.arg(1)
    is_opt = "Option" in c.name
    good = 1 if is_opt else 0
    if e is None:
        c.ret_top()
        return
    for idx, pay, s in split_enum(c, e, loc):
        if idx == good:
            closure_then_wrap(c, s, clo, [(pay[0], payload_loc(loc, good))], opt_some if is_opt else res_ok, good)
        else:
            if is_opt:
                c.ret(opt_none(), st=s)
            else:
                wrap_payload(c, s, res_err, 1, pay[0], payload_loc(loc, 1))


@model("std::result::Result::map_err")
def m_map_err(c):
    e, loc, _ = enum_arg(c)
    clo, _ = c.arg(1)
    if e is None:
        c.ret_top()
        return
    for idx, pay, s in split_enum(c, e, loc):
        if idx == 1:
            closure_then_wrap(c, s, clo, [(pay[0], payload_loc(loc, 1))], res_err, 1)
        else:
            wrap_payload(c, s, res_ok, 0, pay[0], payload_loc(loc, 0))


@model("std::result::Result::or")
def m_or(c):
    e, loc, _ = enum_arg(c)
    if e is None:
        c.ret_top()
        return
    for idx, pay, s in split_enum(c, e, loc):
        if idx == 0:
            wrap_payload(c, s, res_ok, 0, pay[0], payload_loc(loc, 0))
        else:
            v, vl = c.arg(1, s)
            c.ret(v, src_loc=vl, st=s)


@model("std::result::Result::or_else", "std::option::Option::or_else")
def m_or_else(c):
    e, loc, _ = enum_arg(c)
    clo, _ = c.arg(1)
    is_opt = "Option" in c.name
    good = 1 if is_opt else 0
    if e is None:
        c.ret_top()
        return
    for idx, pay, s in split_enum(c, e, loc):
        if idx == good:
            wrap_payload(c, s, opt_some if is_opt else res_ok, good, pay[0], payload_loc(loc, good))
        else:
            run_closure_ret(c, s, clo, [] if is_opt else [(pay[0], payload_loc(loc, idx))])


@model("std::result::Result::and_then", "std::option::Option::and_then")
def m_and_then(c):
    e, loc, _ = enum_arg(c)
    clo, _ = c.arg(1)
    is_opt = "Option" in c.name
    good = 1 if is_opt else 0
    if e is None:
        c.ret_top()
        return
    for idx, pay, s in split_enum(c, e, loc):
        if idx == good:
            run_closure_ret(c, s, clo, [(pay[0], payload_loc(loc, good))])
        else:
            if is_opt:
                c.ret(opt_none(), st=s)
            else:
                wrap_payload(c, s, res_err, 1, pay[0], payload_loc(loc, 1))


@model("std::option::Option::ok_or")
def m_ok_or(c):
    e, loc, _ = enum_arg(c)
    if e is None:
        c.ret_top()
        return
    for idx, pay, s in split_enum(c, e, loc):
        if idx == 1:
            wrap_payload(c, s, res_ok, 0, pay[0], payload_loc(loc, 1))
        else:
            v, vl = c.arg(1, s)
            wrap_payload(c, s, res_err, 1, v, vl)


@model("std::option::Option::copied", "std::option::Option::cloned")
def m_opt_copied(c):
    e, loc, _ = enum_arg(c)
    if e is None:
        c.ret_top()
        return
    for idx, pay, s in split_enum(c, e, loc):
        if idx == 1:
            tv, tloc = c.deref(pay[0], s)
            wrap_payload(c, s, opt_some, 1, tv, tloc)
        else:
            c.ret(opt_none(), st=s)


@model("std::ops::Try::branch")
def m_branch(c):
    e, loc, _ = enum_arg(c)
    if e is None:
        c.ret_top()
        return
    is_opt = e.path == OPTION
    good = 1 if is_opt else 0
    for idx, pay, s in split_enum(c, e, loc):
        if idx == good:
            wrap_payload(c, s, lambda v: Enum(CFLOW, {0: (v,)}), 0, pay[0], payload_loc(loc, good))
        else:
            if is_opt:
                c.ret(Enum(CFLOW, {1: (opt_none(),)}), st=s)
            else:
                c.ret(Enum(CFLOW, {1: (res_err(pay[0]),)}), st=s)


@model("std::ops::FromResidual::from_residual")
def m_from_residual(c):
    v, loc = c.arg(0)
    if isinstance(v, Enum) and v.path == RESULT and 1 in v.variants:
        c.ret(res_err(v.variants[1][0]))
        return
    if isinstance(v, Enum) and v.path == OPTION:
        c.ret(opt_none())
        return
    c.ret_top()


# ---------------------------------------------------------------------------- numerics
@model("core::num::ilog2")
def m_ilog2(c):
    x, xl = c.arg_int(0)
    if x is None:
        c.ret_top()
        return
    c.oblige("PRECOND", "ilog2 of a value that may be zero", x.lo > 0)
    lo = max(x.lo, 1)
    if x.hi < lo:
        return
    klo, khi = lo.bit_length() - 1, x.hi.bit_length() - 1
    _, xloc = c.arg(0)
    ks = list(range(klo, khi + 1))
    for n, k in enumerate(ks):
        s = c.st if n == len(ks) - 1 else c.fork()
        try:
            if len(ks) > 1 or x.lo <= 0:
                a, b = max(lo, 1 << k), min(x.hi, (1 << (k + 1)) - 1)
                if xl is not None and not xl.is_const():
                    s.add_le(xl - b)
                    s.add_le(LinForm.constant(a) - xl)
                s.tag = s.tag + (("ilog2", c.frame.uid, c.bb, k),)
            c.ret(Int.const(k, 32, False), st=s)
        except Infeasible:
            pass


@model("core::num::checked_sub", "core::num::checked_add")
def m_checked(c):
    a, la = c.arg_int(0)
    b, lb = c.arg_int(1)
    if a is None or b is None:
        c.ret_top()
        return
    sub = c.name.endswith("sub")
    tlo, thi = int_range(a.bits, a.signed)
    if sub:
        lo, hi = a.lo - b.hi, a.hi - b.lo
        lin = (la - lb) if (la is not None and lb is not None) else None
    else:
        lo, hi = a.lo + b.lo, a.hi + b.hi
        lin = (la + lb) if (la is not None and lb is not None) else None
    if lin is not None:
        bl, bh = c.st.lin_bounds(lin)
        if bl is not None:
            lo = max(lo, bl)
        if bh is not None:
            hi = min(hi, bh)
    fits = tlo <= lo and hi <= thi
    if not fits and lin is not None:
        fits = c.st.entails_le(lin - thi) and c.st.entails_le(LinForm.constant(tlo) - lin)
    never = hi < tlo or lo > thi
    if not fits:
        s0 = c.fork()
        c.ret(opt_none(), st=s0)
    if not never:
        s1 = c.st
        try:
            if lin is not None:
                s1.add_le(lin - thi)
                s1.add_le(LinForm.constant(tlo) - lin)
            c.ret(opt_some(c.I.mk_int(max(lo, tlo), min(hi, thi), a.bits, a.signed)), st=s1, extras=(((("v", 1), 0), lin),))
        except Infeasible:
            pass


@model("core::num::pow")
def m_pow(c):
    a, _ = c.arg_int(0)
    b, _ = c.arg_int(1)
    ty = c.ret_ty()
    if a is not None and b is not None and a.is_const() and b.is_const():
        v = a.lo ** b.lo
        tlo, thi = int_range(a.bits, a.signed)
        c.oblige("PRECOND", "pow overflow", tlo <= v <= thi)
        c.ret(Int.const(v, a.bits, a.signed))
        return
    c.ret_top()


@model("core::num::to_be_bytes", "core::num::to_le_bytes", "core::num::to_ne_bytes", "core::f64::to_be_bytes", "core::f32::to_be_bytes")
def m_to_bytes(c):
    x, _ = c.arg_int(0)
    ty = c.ret_ty()
    n = None
    if ty and ty.get("k") == "array":
        n = ty["len"].get("v")
    if n is None:
        c.ret_top()
        return
    cells = {}
    if x is not None and x.is_const() and c.name.endswith("to_be_bytes"):
        v = x.lo & ((1 << (8 * n)) - 1)
        for i in range(n):
            cells[i] = Int.const((v >> (8 * (n - 1 - i))) & 0xFF, 8, False)
    elif x is not None and x.lo >= 0 and c.name.endswith("to_be_bytes"):
        for i in range(n):
            top = x.hi >> (8 * (n - 1 - i))
            if top == 0:
                cells[i] = Int.const(0, 8, False)
            elif top < 256 and i == 0 or (top < 256 and all(k in cells and cells[k].is_const() and cells[k].lo == 0 for k in range(i))):
                cells[i] = Int(0, top, 8, False)
    c.ret(Arr(Int.const(n, 64, False), Int.top(8, False), cells, "array"))


@model("core::num::from_be_bytes", "core::f64::from_be_bytes", "core::f32::from_be_bytes", "core::num::from_le_bytes")
def m_from_bytes(c):
    ty = c.ret_ty()
    v, _ = c.arg(0)
    if c.name == "core::num::from_be_bytes" and isinstance(v, Arr) and ty and ty.get("k") in ("int", "uint") and isinstance(v.len, Int) and v.len.is_const():
        n = v.len.lo
        lo = hi = 0
        for i in range(n):
            cell = v.cells.get(i, v.elem)
            cl, ch = (cell.lo, cell.hi) if isinstance(cell, Int) else (0, 255)
            lo = lo * 256 + cl
            hi = hi * 256 + ch
        signed = ty["k"] == "int"
        if signed:
            first = v.cells.get(0, v.elem)
            fl, fh = (first.lo, first.hi) if isinstance(first, Int) else (0, 255)
            if fl >= 128:
                lo, hi = lo - (1 << (8 * n)), hi - (1 << (8 * n))
            elif fh > 127:
                lo, hi = int_range(ty["bits"], True)
        c.ret(c.I.mk_int(lo, hi, ty["bits"], signed))
        return
    c.ret_top()


@model("<&usize as std::ops::Add<usize>>::add", "std::ops::Add::add")
def m_add_trait(c):
    a, aloc = c.arg(0)
    if isinstance(a, Ref):
        a, aloc = c.deref(a)
    b, lb = c.arg_int(1)
    if not isinstance(a, Int) or b is None:
        return NotImplemented
    la = c.I.lin_of(c.st, a, aloc)
    lo, hi, lin, tz = c.I.arith(c.st, "Add", a, la, b, lb, a.bits, a.signed)
    tlo, thi = int_range(a.bits, a.signed)
    if tlo <= lo and hi <= thi:
        c.ret(c.I.mk_int(lo, hi, a.bits, a.signed, tz), lin)
    else:
        # std is compiled without overflow checks: wraps
        c.I.assumptions.add("A-OFF: sums of stream offsets / declared sizes adjusted by try_recover stay below 2^64 (std's `&usize + usize` wraps silently)")
        c.ret(Int.top(a.bits, a.signed))


# ---------------------------------------------------------------------------- conversions
def _int_target(ty):
    """Result<T, _> / T -> (bits, signed) of integer T"""
    if ty is None:
        return None
    if ty.get("k") in ("int", "uint"):
        return ty["bits"], ty["k"] == "int"
    if ty.get("k") == "adt":
        for a in ty.get("args", []):
            if a.get("k") in ("int", "uint"):
                return a["bits"], a["k"] == "int"
            break
    return None


def _try_from_int(c, x, xl):
    tgt = _int_target(c.ret_ty())
    if tgt is None:
        c.ret_top()
        return
    bits, signed = tgt
    tlo, thi = int_range(bits, signed)
    if tlo <= x.lo and x.hi <= thi:
        c.ret(res_ok(Int(x.lo, x.hi, bits, signed, x.tz)), extras=(((("v", 0), 0), xl),))
        return
    if x.hi >= tlo and x.lo <= thi:
        s1 = c.fork()
        try:
            if xl is not None and not xl.is_const():
                s1.add_le(xl - thi)
                s1.add_le(LinForm.constant(tlo) - xl)
            c.ret(res_ok(c.I.mk_int(max(x.lo, tlo), min(x.hi, thi), bits, signed)), st=s1, extras=(((("v", 0), 0), xl),))
        except Infeasible:
            pass
    # Err side(s)
    for (a, b) in ((thi + 1, x.hi), (x.lo, tlo - 1)):
        if a <= b:
            s2 = c.fork()
            try:
                if xl is not None and not xl.is_const():
                    s2.add_le(xl - b)
                    s2.add_le(LinForm.constant(a) - xl)
                c.ret(res_err(Top()), st=s2)
            except Infeasible:
                pass


@model("std::convert::TryFrom::try_from", "std::convert::TryInto::try_into")
def m_try_from(c):
    v, loc = c.arg(0)
    if isinstance(v, Int):
        _try_from_int(c, v, c.I.lin_of(c.st, v, loc))
        return
    arr, aloc = arr_at(c, v)
    ty = c.ret_ty()
    if arr is not None and ty is not None:
        # &[T] -> [T; N]
        okty = None
        for a in ty.get("args", []):
            okty = a
            break
        n = None
        if okty and okty.get("k") == "array":
            ln = okty["len"]
            n = ln.get("v") if ln.get("k") == "cval" else c.frame.cparams.get(ln.get("name"))
        elif okty and okty.get("k") == "ref" and okty["to"].get("k") == "array":
            ln = okty["to"]["len"]
            n = ln.get("v") if ln.get("k") == "cval" else c.frame.cparams.get(ln.get("name"))
        if n is not None:
            length, l = len_lin(c, arr, aloc)
            if length.lo <= n <= length.hi:
                s1 = c.fork()
                try:
                    if l is not None and not l.is_const():
                        s1.add_eq(l - n)
                    cells = {k: x for k, x in arr.cells.items() if k < n}
                    c.ret(res_ok(Arr(Int.const(n, 64, False), arr.elem, cells, "array")), st=s1)
                except Infeasible:
                    pass
            if not (length.is_const() and length.lo == n):
                s2 = c.fork()
                try:
                    if l is not None:
                        c.I.assume_cmp(s2, "Ne", l, LinForm.constant(n), True)
                    c.ret(res_err(Top()), st=s2)
                except Infeasible:
                    pass
            return
    c.ret_top()


@model("std::convert::Into::into", "std::convert::From::from")
def m_into(c):
    v, loc = c.arg(0)
    ty = c.ret_ty()
    if isinstance(v, Int) and ty and ty.get("k") in ("int", "uint"):
        bits, signed = ty["bits"], ty["k"] == "int"
        tlo, thi = int_range(bits, signed)
        if tlo <= v.lo and v.hi <= thi:
            c.ret(Int(v.lo, v.hi, bits, signed, v.tz), c.I.lin_of(c.st, v, loc))
            return
    if isinstance(v, Int) and ty and ty.get("k") == "param":
        c.ret(v, c.I.lin_of(c.st, v, loc))
        return
    arr, aloc = arr_at(c, v)
    if arr is not None and ty and mirlib.strip_generics(ty.get("path", "")) == "std::vec::Vec":
        ln, l = len_lin(c, arr, aloc)
        c.I.emit("alloc", call=c, size=ln, size_lin=l, what=c.name)
        c.ret(Arr(ln, arr.elem, arr.cells, "vec"), extras=((("len",), l),))
        return
    return NotImplemented


@model("std::clone::Clone::clone")
def m_clone(c):
    v, _ = c.arg(0)
    t, tloc = c.deref(v)
    if isinstance(t, Top):
        c.ret_top()
        return
    if isinstance(t, Int):
        c.ret(t, c.I.lin_of(c.st, t, tloc))
    else:
        c.ret(t, src_loc=tloc)


@model("std::string::String::from_utf8")
def m_from_utf8(c):
    v, loc = c.arg(0)
    arr, aloc = arr_at(c, v)
    if arr is None:
        c.ret_top()
        return
    s0 = c.fork()
    c.ret(res_ok(Arr(arr.len, Int.top(8, False), None, "vec")), st=s0)
    c.ret(res_err(Top()))


# ---------------------------------------------------------------------------- I/O and spec traits
@model("std::io::Read::read")
def m_read(c):
    bufv, _ = c.arg(1)
    arr, loc = arr_at(c, bufv)
    c.I.assumptions.add("A-READ: R::read(buf) returns Ok(n) only with n <= buf.len() (std::io::Read contract)")
    if arr is None:
        c.oblige("READ_NONEMPTY", "buffer handed to read() is non-empty", False)
        c.ret_top()
        return
    ln, l = len_lin(c, arr, loc)
    nonempty = ln.lo >= 1 or (l is not None and c.st.entails_le(LinForm.constant(1) - l))
    c.oblige("READ_NONEMPTY", "buffer handed to read() is non-empty", nonempty)
    # contents become unknown (view and parent)
    def havoc(aloc):
        a = c.I.read_loc(c.st, aloc)
        if isinstance(a, Arr):
            na = Arr(a.len, Int.top(8, False), None, a.container, a.view_of)
            c.st.cells[aloc[0]] = set_at(c.st.cells[aloc[0]], aloc[1], na)
            if a.view_of is not None:
                havoc(a.view_of)
    if loc is not None:
        havoc(loc)
    c.I.emit("read", call=c, buf_len=ln, buf_len_lin=l)
    def outcome_tag(st_, k):
        # analyses that count received bytes keep the three outcomes of a read apart (the counter is ahead of `filled` until the caller adds n)
        if c.I.opt.get("ghost_received") is not None:
            st_.tag = tuple(x for x in st_.tag if x[0] != "rd") + (("rd", k),)
    # Err
    s_err = c.fork()
    outcome_tag(s_err, 2)
    if c.I.opt.get("rderr_partition") and not any(x[0] == "rderr" for x in s_err.tag):
        s_err.tag = s_err.tag + (("rderr", 1),)      # the source failed: kept apart so that what is reported for it can be checked
    c.ret(res_err(Top()), st=s_err)
    # Ok(0): end of stream
    s0 = c.fork()
    outcome_tag(s0, 0)
    s0.ghost["eof_seen"] = 1
    if c.I.opt.get("eof_partition") and not any(x[0] == "eof" for x in s0.tag):
        s0.tag = s0.tag + (("eof", 1),)      # end of stream observed: kept apart from states where it was not
    c.ret(res_ok(Int.const(0, 64, False)), st=s0)
    # Ok(n), 1 <= n <= len
    if ln.hi >= 1:
        s1 = c.st
        outcome_tag(s1, 1)
        try:
            if l is not None and not l.is_const():
                s1.add_le(LinForm.constant(1) - l)
            c.ret(res_ok(usize(1, max(ln.hi, 1))), st=s1)
            dloc = c.I.resolve(s1, c.frame, c.term["dest"])
            if dloc is not None and l is not None:
                s1.add_le(LinForm.var((dloc[0], dloc[1] + (("v", 0), 0))) - l)
            g = c.I.opt.get("ghost_received")
            if g is not None and dloc is not None and g[0] in s1.cells:
                # ghost counter of bytes received from the source:  g := g + n   (invertible: old g = new g - n)
                nv = (dloc[0], dloc[1] + (("v", 0), 0))
                repl = LinForm.var(g) - LinForm.var(nv)
                from lin import Cons
                nc = Cons()
                for x in s1.cons.le:
                    nc.add_le(x.subst(g, repl) if g in x.terms else x)
                for x in s1.cons.eq:
                    nc.add_eq(x.subst(g, repl) if g in x.terms else x)
                s1.cons = nc
                for gk, fs in list(s1.guards.items()):
                    s1.guards[gk] = type(fs)((f[0], f[1].subst(g, repl)) + tuple(f[2:]) if f[0] in ("le", "eq") and g in f[1].terms else f for f in fs)
        except Infeasible:
            pass


@model("std::io::Write::write_all", "std::io::Write::flush", "std::io::Write::write")
def m_write(c):
    c.I.emit("dest_io", call=c)
    c.ret_top()


@prefix_model("ebml_iterable_specification::EbmlSpecification::", "ebml_iterable_specification::EbmlTag::", "EbmlSpecification::", "EbmlTag::")
def m_spec(c):
    if c.callee and "resolved" in c.callee and c.callee["resolved"].get("local"):
        return NotImplemented
    c.I.assumptions.add("A-SPEC: specification trait methods are pure, do not panic, and are mutually consistent as the trait docs require")
    c.I.emit("spec_call", call=c)
    c.ret_top()


@prefix_model("std::fmt::", "core::fmt::", "std::string::ToString::", "std::fmt::format", "std::hash::", "core::hash::")
def m_fmt(c):
    c.ret_top()


@model("std::collections::HashSet::contains", "std::collections::HashSet::insert")
def m_hashset(c):
    c.ret(Int.boolean())


def _std_structural(v):
    p = getattr(v, "path", "")
    return p in ("std::option::Option", "std::result::Result", "tuple", "()")


def _own_eq_body(c):
    """the local `<T as PartialEq>::eq` body for the Self type of this `ne` call, if the program has one"""
    args = (c.callee or {}).get("args") or []
    if not args:
        return None
    ty = args[0]
    while isinstance(ty, dict) and ty.get("k") == "ref":
        ty = ty.get("to")
    if not isinstance(ty, dict) or ty.get("k") != "adt":
        return None
    p = strip_generics(ty.get("path", ""))
    for key, b in c.I.prog.bodies.items():
        if key.endswith(" as std::cmp::PartialEq>::eq") and b.promoted_index is None:
            inner = strip_generics(key[1:key.index(" as ")]).split("<")[0]
            # types of another analysed crate are recorded under their crate-relative path
            rel = p.split("::", 1)[1] if ("::" in p and p.split("::", 1)[0] in c.I.prog.crates) else p
            if inner == p or inner == rel:
                return b
    return None


@model("std::cmp::PartialEq::eq", "std::cmp::PartialEq::ne")
def m_eq(c):
    if c.callee and "resolved" in c.callee and c.callee["resolved"]["path"] in ():
        return NotImplemented
    # one and the same object compared with itself (equality of data without floating-point parts is reflexive)
    a0, _ = c.arg(0)
    b0, _ = c.arg(1)
    for _hop in range(2):
        if isinstance(a0, Ref) and isinstance(b0, Ref) and a0.cell is not None and (a0.cell, a0.path) == (b0.cell, b0.path):
            tv = c.I.read_loc(c.st, (a0.cell, a0.path))
            if not isinstance(tv, Ref) and "f64" not in repr(tv) and "f32" not in repr(tv):
                c.ret(Int.const(1 if c.name.endswith("eq") else 0, 1, False))
                return
        if isinstance(a0, Ref) and isinstance(b0, Ref) and a0.cell is not None and b0.cell is not None:
            a0, b0 = c.I.read_loc(c.st, (a0.cell, a0.path)), c.I.read_loc(c.st, (b0.cell, b0.path))
        else:
            break
    body = c.I.prog.bodies.get(c.rname)
    if body is not None:
        return NotImplemented
    if c.name.endswith("::ne"):
        # the provided `ne` is `!eq`: when the type's own `eq` is part of the program, evaluate that and negate
        eqb = _own_eq_body(c)
        if eqb is not None:
            outs = c.I.inline_call(c, eqb)
            for s in outs:
                dloc = c.I.resolve(s, c.frame, c.term["dest"])
                v = c.I.read_loc(s, dloc) if dloc is not None else None
                if isinstance(v, Int) and v.is_const():
                    c.I.write_place(s, c.frame, c.term["dest"], Int.const(1 - v.lo, 1, False))
                else:
                    c.I.write_place(s, c.frame, c.term["dest"], Int.boolean())
            return
    a, al = c.arg(0)
    b, bl = c.arg(1)
    for _ in range(2):
        if isinstance(a, Ref):
            a, al = c.deref(a)
        if isinstance(b, Ref):
            b, bl = c.deref(b)
    if isinstance(a, Int) and isinstance(b, Int):
        la, lb = c.I.lin_of(c.st, a, al), c.I.lin_of(c.st, b, bl)
        v, _, d = c.I.compare(c.st, "Eq" if c.name.endswith("eq") else "Ne", a, la, b, lb)
        c.ret(v, defn=d)
        return
    # std's own equality on Option / Result / tuples is structural; a type of the program with an eq of its own was handled above
    if isinstance(a, (Enum, Struct)) and isinstance(b, (Enum, Struct)):
        r = abs_eq(c, a, b)
        if r is not None and not (_std_structural(a) and _std_structural(b)):
            # reached through std's impl for references to a type of the program: its equality is taken to be the derived, structural one
            c.I.assumptions.add("A-EQ: PartialEq of the library's plain data types (PathPart, TagDataType, EBMLSize, Master) is the derived structural equality")
        if r is not None:
            c.ret(Int.const(int(r) if c.name.endswith("eq") else 1 - int(r), 1, False))
            return
    c.ret(Int.boolean())


# ---------------------------------------------------------------------------- callables that are enum constructors; map_or; inclusive ranges
def ctor_of(c, f):
    """(adt path, variant index) when the fn item is a tuple-variant constructor of an enum known to the program (e.g. `EBMLSize::Known`)"""
    if not isinstance(f, FnItem):
        return None
    path = strip_generics(f.callee.get("path", ""))
    if "::" not in path:
        return None
    adt_path, vname = path.rsplit("::", 1)
    info = c.I.adt_info(adt_path)
    if info is None:
        core = {"std::option::Option": ["None", "Some"], "std::result::Result": ["Ok", "Err"]}
        if adt_path in core and vname in core[adt_path]:
            return adt_path, core[adt_path].index(vname)
        return None
    for i, v in enumerate(info["variants"]):
        if v["name"] == vname:
            return adt_path, i
    return None


def apply_then_ret(c, s, f, val, vloc):
    """return f(val) where f is a closure or an enum-variant constructor; anything else yields ⊤"""
    k = ctor_of(c, f)
    if k is not None:
        wrap_payload(c, s, lambda v: Enum(k[0], {k[1]: (v,)}), k[1], val, vloc)
        return
    r = c.I.call_closure(c, f, [(val, vloc)], st=s) if isinstance(f, Closure) else None
    if r is None:
        c.ret(c.I.top_of(c.ret_ty(), s, ("ret", c.frame.uid, c.bb)), st=s)
        return
    for (s2, rv, rloc, nf) in r:
        c.I.write_place(s2, c.frame, c.term["dest"], rv)
        c.I.finish_closure(s2, nf)
        c.results.append(s2)


@model("std::result::Result::map_or", "std::option::Option::map_or")
def m_map_or(c):
    e, loc, _ = enum_arg(c)
    f, _ = c.arg(2)
    good = 1 if "Option" in c.name else 0
    if e is None:
        c.ret_top()
        return
    for idx, pay, s in split_enum(c, e, loc):
        if idx == good:
            apply_then_ret(c, s, f, pay[0], payload_loc(loc, good))
        else:
            v, vl = c.arg(1, s)
            c.ret(v, src_loc=vl, st=s)


@model("std::ops::RangeInclusive::new")
def m_range_inclusive_new(c):
    a, _ = c.arg(0)
    b, _ = c.arg(1)
    c.ret(Struct("std::ops::RangeInclusive", [a, b, Int.const(0, 1, False)]))


@model("std::ops::RangeInclusive::contains", "std::ops::Range::contains")
def m_range_contains(c):
    rv, rloc = c.arg(0)
    r, rloc = c.deref(rv) if isinstance(rv, Ref) else (rv, rloc)
    iv, iloc = c.arg(1)
    item, iloc = c.deref(iv) if isinstance(iv, Ref) else (iv, iloc)
    if not (isinstance(r, Struct) and len(r.fields) >= 2 and all(isinstance(x, Int) for x in r.fields[:2]) and isinstance(item, Int)):
        c.ret(Int.boolean())
        return
    lo, hi = r.fields[0], r.fields[1]
    incl = "RangeInclusive" in c.name
    il = c.I.lin_of(c.st, item, iloc)
    # decided by intervals?
    top = hi.lo if incl else hi.lo - 1
    if item.lo >= lo.hi and item.hi <= top:
        c.ret(Int.const(1, 1, False))
        return
    if item.hi < lo.lo or item.lo > (hi.hi if incl else hi.hi - 1):
        c.ret(Int.const(0, 1, False))
        return
    if not (lo.is_const() and hi.is_const()) or iloc is None:
        c.ret(Int.boolean())
        return
    a, b = lo.lo, (hi.lo if incl else hi.lo - 1)
    # inside
    if max(item.lo, a) <= min(item.hi, b):
        s1 = c.fork()
        try:
            c.I.write_loc(s1, iloc, Int(max(item.lo, a), min(item.hi, b), item.bits, item.signed), il)
            c.ret(Int.const(1, 1, False), st=s1)
        except Infeasible:
            pass
    # below / above
    if item.lo < a:
        s2 = c.fork()
        try:
            c.I.write_loc(s2, iloc, Int(item.lo, min(item.hi, a - 1), item.bits, item.signed), il)
            c.ret(Int.const(0, 1, False), st=s2)
        except Infeasible:
            pass
    if item.hi > b:
        s3 = c.st
        try:
            c.I.write_loc(s3, iloc, Int(max(item.lo, b + 1), item.hi, item.bits, item.signed), il)
            c.ret(Int.const(0, 1, False), st=s3)
        except Infeasible:
            pass


def _int_range_bounds(v):
    """(first, last) of a concrete integer range value (Range / RangeInclusive struct or a modelled range iterator), else None"""
    if isinstance(v, Iter) and v.ikind == "range" and isinstance(v.start, Int) and isinstance(v.end, Int) and v.start.is_const() and v.end.is_const():
        return v.start.lo, v.end.lo - 1, v.start
    if isinstance(v, Struct) and v.path.endswith("ops::Range") and len(v.fields) >= 2 and all(isinstance(x, Int) and x.is_const() for x in v.fields[:2]):
        return v.fields[0].lo, v.fields[1].lo - 1, v.fields[0]
    if isinstance(v, Struct) and v.path.endswith("ops::RangeInclusive") and len(v.fields) >= 2 and all(isinstance(x, Int) and x.is_const() for x in v.fields[:2]):
        return v.fields[0].lo, v.fields[1].lo, v.fields[0]
    return None


@model("std::iter::Iterator::find")
def m_find(c):
    r, _ = c.arg(0)
    it, loc = c.deref(r) if isinstance(r, Ref) else (r, None)
    clo, _ = c.arg(1)
    b = _int_range_bounds(it)
    if b is None or not isinstance(clo, Closure) or b[1] - b[0] > 64:
        # not a small concrete integer range: the predicate is still run once (for its own obligations), the result is unknown
        c.ret(c.I.top_of(c.ret_ty(), c.st, ("ret", c.frame.uid, c.bb)))
        return
    first, last, proto = b
    # step through the range: the predicate is evaluated for each value in order, on every state that has not found a match yet
    pending = [c.st]
    for i in range(first, last + 1):
        nxt = []
        for s in pending:
            cell = new_tmp(c, s, Int.const(i, proto.bits, proto.signed), "find%d" % i)
            res = c.I.call_closure(c, clo, [(Ref(cell, ()), None)], st=s)
            if res is None:
                c.ret(c.I.top_of(c.ret_ty(), s, ("ret", c.frame.uid, c.bb)), st=s)
                continue
            for (s2, rv, rloc, nf) in res:
                c.I.finish_closure(s2, nf)
                if isinstance(rv, Int) and rv.is_const():
                    if rv.lo:
                        c.ret(opt_some(Int.const(i, proto.bits, proto.signed)), st=s2)
                    else:
                        nxt.append(s2)
                else:
                    s3 = s2.copy()
                    c.ret(opt_some(Int.const(i, proto.bits, proto.signed)), st=s3)
                    nxt.append(s2)
        pending = nxt
        if not pending:
            break
    for s in pending:
        c.ret(opt_none(), st=s)


@model("std::ops::Fn::call", "std::ops::FnMut::call_mut", "std::ops::FnOnce::call_once")
def m_fn_call(c):
    """calling a closure value through the Fn* traits: the argument tuple is spread over the closure's parameters ("rust-call" ABI)"""
    f, floc = c.arg(0)
    for _ in range(3):
        if isinstance(f, Ref) and f.cell is not None:
            f, floc = c.deref(f)
        else:
            break
    tup, tloc = c.arg(1)
    if not isinstance(f, Closure) or not isinstance(tup, Struct):
        k = ctor_of(c, f) if isinstance(f, FnItem) else None
        if k is not None and isinstance(tup, Struct) and len(tup.fields) == 1:
            c.ret(Enum(k[0], {k[1]: (tup.fields[0],)}))
            return
        return NotImplemented
    args = []
    for i, v in enumerate(tup.fields):
        args.append((v, (tloc[0], tloc[1] + (i,)) if tloc is not None else None))
    res = c.I.call_closure(c, f, args)
    if res is None:
        return NotImplemented
    for (s2, rv, rloc, nf) in res:
        lin = c.I.lin_of(s2, rv, rloc) if isinstance(rv, Int) else None
        c.I.write_place(s2, c.frame, c.term["dest"], rv)
        if lin is not None and not lin.is_const():
            dloc = c.I.resolve(s2, c.frame, c.term["dest"])
            if dloc is not None:
                try:
                    s2.cons.add_eq(LinForm.var(dloc) - lin)
                except Exception:
                    pass
        c.I.finish_closure(s2, nf)
        c.results.append(s2)


@model("core::num::leading_zeros")
def m_leading_zeros(c):
    """leading_zeros of an unsigned value: bits - 1 - ilog2(x) for x > 0, bits for 0; one successor state per bit-length class (like ilog2)"""
    x, xl = c.arg_int(0)
    if x is None or x.signed:
        c.ret_top()
        return
    bits = x.bits
    classes = []
    if x.lo <= 0:
        classes.append((None, 0, 0))
    lo = max(x.lo, 1)
    if x.hi >= lo:
        for k in range(lo.bit_length() - 1, x.hi.bit_length()):
            classes.append((k, max(lo, 1 << k), min(x.hi, (1 << (k + 1)) - 1)))
    for n, (k, a, b) in enumerate(classes):
        s = c.st if n == len(classes) - 1 else c.fork()
        try:
            if len(classes) > 1:
                if xl is not None and not xl.is_const():
                    s.add_le(xl - b)
                    s.add_le(LinForm.constant(a) - xl)
                s.tag = s.tag + (("ilog2", c.frame.uid, c.bb, -1 if k is None else k),)
            c.ret(Int.const(bits if k is None else bits - 1 - k, 32, False), st=s)
        except Infeasible:
            pass


@model("std::collections::VecDeque::range", "std::collections::VecDeque::range_mut")
def m_deque_range(c):
    """iterator over a sub-range of a deque: like slice iteration over [start, end)"""
    from models import get_range, prove_le, _vec_arg
    arr, loc = _vec_arg(c)
    rv, rloc = c.arg(1)
    if arr is None:
        c.ret(Iter("opaque"))
        return
    r = get_range(c, rv, rloc, arr, loc, c.st)
    ln, l = len_lin(c, arr, loc)
    if r is None:
        c.ret(Iter("slice", usize(0, ln.hi), arr.elem if not arr.elem.is_bot() else Top(), extra="ref"))
        return
    s, sl, e, el = r
    c.oblige("PRECOND", "range start <= end <= len", prove_le(c.st, sl, el, s, e) and prove_le(c.st, el, l, e, ln))
    try:
        if sl is not None and el is not None:
            c.st.add_le(sl - el)
        if el is not None and l is not None:
            c.st.add_le(el - l)
    except Infeasible:
        return
    cnt = usize(max(e.lo - s.hi, 0), max(e.hi - s.lo, 0))
    cl = (el - sl) if (el is not None and sl is not None) else None
    c.ret(Iter("slice", cnt, arr.elem if not arr.elem.is_bot() else Top(), extra="ref"), extras=((("rem",), cl),))


@model("std::iter::Iterator::for_each")
def m_for_each(c):
    """for_each over a slice-like iterator: the closure is run once on the summary element (writes through the element reference are weak
    updates of the summary, so one abstract run stands for every iteration); anything else the closure may write through a captured
    &mut is forgotten afterwards, because one run does not account for repeated effects there"""
    from models import _item
    it, loc = c.arg(0)
    clo, _ = c.arg(1)
    if not isinstance(it, Iter) or it.ikind != "slice" or not isinstance(clo, Closure):
        c.I.default_call(c)
        return
    rem = it.remaining if isinstance(it.remaining, Int) else usize()
    if rem.hi == 0:
        c.ret(UNIT)
        return
    if rem.lo == 0:
        s0 = c.fork()
        c.ret(UNIT, st=s0)
    elem = it.elem if it.elem is not None and not it.elem.is_bot() else Top()
    item = _item(c, c.st, it, elem, "foreach")
    res = c.I.call_closure(c, clo, [(item, None)])
    if res is None:
        c.I.default_call(c)
        return
    for (s2, rv, rloc, nf) in res:
        c.I.finish_closure(s2, nf)
        for cap in clo.captures:
            if isinstance(cap, Ref) and cap.cell is not None and cap.mut:
                c.I.havoc_through(s2, cap)
        c.I.write_place(s2, c.frame, c.term["dest"], UNIT)
        c.results.append(s2)


@model("std::iter::Iterator::try_for_each")
def m_try_for_each(c):
    """try_for_each over a slice-like iterator with a closure returning a Try value: one abstract run of the closure on the summary element
    stands for the iterations (see for_each); the result is that run's result — an Err/Break of some iteration, or the Ok/Continue of the
    last — or the plain Continue value when there is no element"""
    from models import _item
    it, loc = c.arg(0)
    if isinstance(it, Ref):
        it, loc = c.deref(it)
    clo, _ = c.arg(1)
    if not isinstance(it, Iter) or it.ikind != "slice" or not isinstance(clo, Closure):
        c.I.default_call(c)
        return
    rem = it.remaining if isinstance(it.remaining, Int) else usize()
    rty = c.ret_ty()
    unit_ok = None
    if rty is not None and strip_generics(rty.get("path", "")) == RESULT:
        unit_ok = res_ok(UNIT)
    if rem.lo == 0 and unit_ok is not None:
        s0 = c.fork()
        c.ret(unit_ok, st=s0)
    if rem.hi == 0:
        if unit_ok is None:
            c.ret_top()
        return
    elem = it.elem if it.elem is not None and not it.elem.is_bot() else Top()
    item = _item(c, c.st, it, elem, "tryforeach")
    res = c.I.call_closure(c, clo, [(item, None)])
    if res is None:
        c.I.default_call(c)
        return
    for (s2, rv, rloc, nf) in res:
        c.I.finish_closure(s2, nf)
        c.I.write_place(s2, c.frame, c.term["dest"], rv)
        c.results.append(s2)


# ---------------------------------------------------------------------------- further Option / Result / bool combinators
@model("std::option::Option::ok_or_else")
def m_ok_or_else(c):
    e, loc, _ = enum_arg(c)
    clo, _ = c.arg(1)
    if e is None:
        c.ret_top()
        return
    for idx, pay, s in split_enum(c, e, loc):
        if idx == 1:
            wrap_payload(c, s, res_ok, 0, pay[0], payload_loc(loc, 1))
        else:
            closure_then_wrap(c, s, clo, [], res_err, 1)


@model("std::option::Option::map_or_else", "std::result::Result::map_or_else")
def m_map_or_else(c):
    e, loc, _ = enum_arg(c)
    dflt, _ = c.arg(1)
    clo, _ = c.arg(2)
    is_opt = "Option" in c.name
    good = 1 if is_opt else 0
    if e is None:
        c.ret_top()
        return
    for idx, pay, s in split_enum(c, e, loc):
        if idx == good:
            run_closure_ret(c, s, clo, [(pay[0], payload_loc(loc, good))])
        else:
            run_closure_ret(c, s, dflt, [] if is_opt else [(pay[0], payload_loc(loc, idx))])


@model("std::result::Result::ok", "std::result::Result::err")
def m_result_ok(c):
    e, loc, _ = enum_arg(c)
    if e is None:
        c.ret_top()
        return
    want = 0 if c.name.endswith("::ok") else 1
    for idx, pay, s in split_enum(c, e, loc):
        if idx == want:
            wrap_payload(c, s, opt_some, 1, pay[0], payload_loc(loc, idx))
        else:
            c.ret(opt_none(), st=s)


@model("std::option::Option::or")
def m_opt_or(c):
    e, loc, _ = enum_arg(c)
    if e is None:
        c.ret_top()
        return
    for idx, pay, s in split_enum(c, e, loc):
        if idx == 1:
            wrap_payload(c, s, opt_some, 1, pay[0], payload_loc(loc, 1))
        else:
            v, vl = c.arg(1, s)
            c.ret(v, src_loc=vl, st=s)


def run_closure_ret_bool(c, s, clo, args):
    """like run_closure_ret for a predicate: an undecided result is split into its two values while the closure's frame is still alive, so that what
    the closure established on its `true` path (the variant it matched, the comparison it made) stays attached to the value `true` of the result
    when the caller joins the outcomes (guards keyed on the destination boolean)"""
    r = c.I.call_closure(c, clo, args, st=s)
    if r is None:
        c.ret_top(st=s)
        return
    for (s2, rv, rloc, nf) in r:
        outs = []
        if isinstance(rv, Int) and not rv.is_const() and rloc is not None and rv.bits == 1:
            for val in (0, 1):
                sx = s2.copy() if val == 0 else s2
                try:
                    c.I.assume_var(sx, rloc, val, True)
                    outs.append((sx, Int.const(val, 1, False)))
                except Infeasible:
                    pass
        else:
            outs.append((s2, rv))
        for sx, v in outs:
            c.I.write_place(sx, c.frame, c.term["dest"], v, c.I.lin_of(sx, v, rloc) if isinstance(v, Int) and not v.is_const() else None,
                            rloc if not isinstance(v, Int) else None)
            c.I.finish_closure(sx, nf)
            c.results.append(sx)


@model("std::option::Option::is_some_and", "std::result::Result::is_ok_and", "std::result::Result::is_err_and", "std::option::Option::is_none_or")
def m_is_some_and(c):
    e, loc, _ = enum_arg(c)
    clo, _ = c.arg(1)
    if e is None:
        c.ret(Int.boolean())
        return
    last = c.name.split("::")[-1]
    if "Option" in c.name:
        subject = 1
    else:
        subject = 1 if last == "is_err_and" else 0
    other = 1 if last == "is_none_or" else 0
    for idx, pay, s in split_enum(c, e, loc):
        if idx == subject:
            run_closure_ret_bool(c, s, clo, [(pay[0], payload_loc(loc, idx))])
        else:
            c.ret(Int.const(other, 1, False), st=s)


@model("core::bool::then", "core::bool::then_some", "core::bool::<impl bool>::then", "core::bool::<impl bool>::then_some", "std::primitive::bool::then", "std::primitive::bool::then_some", "bool::then", "bool::then_some")
def m_bool_then(c):
    b, bl = c.arg(0)
    lazy = c.name.endswith("::then")
    arg, al = c.arg(1)
    outs = []
    if isinstance(b, Int) and b.is_const():
        outs = [(b.lo, c.st)]
    else:
        s0 = c.fork()
        outs = [(0, s0), (1, c.st)]
    for val, s in outs:
        try:
            if bl is not None and not (isinstance(b, Int) and b.is_const()):
                c.I.assume_var(s, bl, val, True)
            if val == 0:
                c.ret(opt_none(), st=s)
            elif lazy:
                closure_then_wrap(c, s, arg, [], opt_some, 1)
            else:
                v, vl = c.arg(1, s)
                wrap_payload(c, s, opt_some, 1, v, vl)
        except Infeasible:
            pass


@model("std::option::Option::filter")
def m_opt_filter(c):
    e, loc, _ = enum_arg(c)
    clo, _ = c.arg(1)
    if e is None:
        c.ret_top()
        return
    for idx, pay, s in split_enum(c, e, loc):
        if idx != 1:
            c.ret(opt_none(), st=s)
            continue
        cell = new_tmp(c, s, pay[0], "filterelem")
        r = c.I.call_closure(c, clo, [(Ref(cell, ()), None)], st=s)
        if r is None:
            c.ret_top(st=s)
            continue
        for (s2, rv, rloc, nf) in r:
            c.I.finish_closure(s2, nf)
            keep = isinstance(rv, Int) and rv.is_const() and rv.lo == 1
            drop = isinstance(rv, Int) and rv.is_const() and rv.lo == 0
            if not drop:
                s3 = s2 if keep else s2.copy()
                cur = s3.cells.get(cell, pay[0])
                c.I.write_place(s3, c.frame, c.term["dest"], opt_some(cur))
                c.results.append(s3)
            if not keep:
                c.I.write_place(s2, c.frame, c.term["dest"], opt_none())
                c.results.append(s2)


@model("core::num::checked_ilog2")
def m_checked_ilog2(c):
    """None exactly for 0; otherwise Some(ilog2), one successor state per bit-length class (as ilog2)"""
    x, xl = c.arg_int(0)
    if x is None:
        c.ret_top()
        return
    if x.lo <= 0:
        s0 = c.fork()
        try:
            _, xloc = c.arg(0, s0)
            if xloc is not None:
                c.I.assume_var(s0, xloc, 0, True)
            c.ret(opt_none(), st=s0)
        except Infeasible:
            pass
    lo = max(x.lo, 1)
    if x.hi < lo:
        return
    klo, khi = lo.bit_length() - 1, x.hi.bit_length() - 1
    ks = list(range(klo, khi + 1))
    for n, k in enumerate(ks):
        s = c.st if n == len(ks) - 1 else c.fork()
        try:
            if len(ks) > 1 or x.lo <= 0:
                a, b = max(lo, 1 << k), min(x.hi, (1 << (k + 1)) - 1)
                if xl is not None and not xl.is_const():
                    s.add_le(xl - b)
                    s.add_le(LinForm.constant(a) - xl)
                s.tag = s.tag + (("ilog2", c.frame.uid, c.bb, k),)
            c.ret(opt_some(Int.const(k, 32, False)), st=s)
        except Infeasible:
            pass


def _range_values(it):
    """the values a modelled integer range iterator will hand out, when there are at most 64 of them and they are known"""
    b = _int_range_bounds(it)
    if b is None or b[1] - b[0] > 64:
        return None
    first, last, proto = b
    return [Int.const(v, proto.bits, proto.signed) for v in range(first, last + 1)]


def _pred_on(c, clo, v, by_ref):
    """the boolean a predicate closure gives for the constant v (⊤ bool when undecided); its effects are discarded"""
    s = c.st.copy()
    arg = v
    if by_ref:
        cell = new_tmp(c, s, v, ("rangeitem", v.lo))
        arg = Ref(cell, ())
    r = c.I.call_closure(c, clo, [(arg, None)], st=s)
    out = None
    for (s2, rv, rloc, nf) in (r or []):
        b = rv if isinstance(rv, Int) and rv.bits == 1 else Int.boolean()
        out = b if out is None else Int(min(out.lo, b.lo), max(out.hi, b.hi), 1, False)
    return out if out is not None else Int.boolean()


_prev_any_all = MODELS.get("std::iter::Iterator::any")
_prev_find = MODELS.get("std::iter::Iterator::find")
_prev_position = MODELS.get("std::iter::Iterator::position")


@model("std::iter::Iterator::any", "std::iter::Iterator::all")
def m_any_all_range(c):
    """any / all over a small constant integer range: the predicate is evaluated for each value; slices go to the slice model"""
    r, _ = c.arg(0)
    it, loc = c.deref(r)
    if not isinstance(it, (Iter, Struct)):
        it = r if isinstance(r, (Iter, Struct)) else None
    vals = _range_values(it)
    if vals is None:
        return _prev_any_all(c)
    clo, _ = c.arg(1)
    is_any = c.name.endswith("any")
    decided = None
    unknown = False
    for v in vals:
        b = _pred_on(c, clo, v, False)
        if b.is_const():
            if is_any and b.lo == 1:
                decided = 1
                break
            if (not is_any) and b.lo == 0:
                decided = 0
                break
        else:
            unknown = True
    if decided is None and not unknown:
        decided = 0 if is_any else 1
    c.ret(Int.const(decided, 1, False) if decided is not None else Int.boolean())


@model("std::iter::Iterator::position")
def m_find_range(c):
    """find / position over a small constant integer range with a predicate decided for each value; everything else goes to the slice models"""
    r, _ = c.arg(0)
    it, loc = c.deref(r)
    if not isinstance(it, (Iter, Struct)):
        it = r if isinstance(r, (Iter, Struct)) else None
    vals = _range_values(it)
    prev = _prev_find if c.name.endswith("find") else _prev_position
    if vals is None:
        return prev(c) if prev is not None else NotImplemented
    clo, _ = c.arg(1)
    is_find = c.name.endswith("find")
    cands = []
    for i, v in enumerate(vals):
        b = _pred_on(c, clo, v, is_find)
        if b.is_const() and b.lo == 0:
            continue
        cands.append((i, v, b))
        if b.is_const() and b.lo == 1:
            break
    definite = bool(cands) and cands[-1][2].is_const() and cands[-1][2].lo == 1
    outs = []
    for i, v, b in cands:
        outs.append(opt_some(v if is_find else Int.const(i, 64, False)))
    if not definite:
        outs.append(opt_none())
    for n, val in enumerate(outs):
        s = c.st if n == len(outs) - 1 else c.fork()
        c.ret(val, st=s)


# ---------------------------------------------------------------------------- structural equality of abstract values; contains; zip
def _same_type(c, p, q):
    """type paths are the same, possibly one of them written relative to its (analysed) crate"""
    if p == q:
        return True
    def rel(x):
        return x.split("::", 1)[1] if ("::" in x and x.split("::", 1)[0] in c.I.prog.crates) else x
    return rel(p) == rel(q)


def abs_eq(c, a, b, depth=0):
    """True / False when `a == b` is decided for every pair of concrete values the two abstract values stand for (derived, structural
    equality: enums by variant and payload, tuples and structs field by field, integers by value); None when undecided"""
    for _ in range(3):
        if isinstance(a, Ref) and a.cell is not None:
            a = c.I.read_loc(c.st, (a.cell, a.path))
        if isinstance(b, Ref) and b.cell is not None:
            b = c.I.read_loc(c.st, (b.cell, b.path))
    if depth > 4:
        return None
    if isinstance(a, Int) and isinstance(b, Int):
        if a.is_const() and b.is_const():
            return a.lo == b.lo
        if a.hi < b.lo or b.hi < a.lo:
            return False
        return None
    if isinstance(a, Enum) and isinstance(b, Enum) and _same_type(c, a.path, b.path):
        common = set(a.variants) & set(b.variants)
        if not common:
            return False
        if len(a.variants) == 1 and len(b.variants) == 1:
            i = next(iter(common))
            pa, pb = a.variants[i], b.variants[i]
            if len(pa) != len(pb):
                return None
            res = True
            for x, y in zip(pa, pb):
                r = abs_eq(c, x, y, depth + 1)
                if r is False:
                    return False
                if r is None:
                    res = None
            return res
        # several variants possible: unequal for sure when the payloads of every common variant are
        for i in common:
            pa, pb = a.variants[i], b.variants[i]
            if len(pa) != len(pb) or not pa:
                return None
            if not any(abs_eq(c, x, y, depth + 1) is False for x, y in zip(pa, pb)):
                return None
        return False
    if isinstance(a, Struct) and isinstance(b, Struct) and a.path == b.path and len(a.fields) == len(b.fields):
        res = True
        for x, y in zip(a.fields, b.fields):
            r = abs_eq(c, x, y, depth + 1)
            if r is False:
                return False
            if r is None:
                res = None
        return res
    return None


@model("core::slice::contains")
def m_slice_contains(c):
    """[T]::contains(&x): true when an element known by position (within the certain length) equals x, false when no element can equal x"""
    v, _ = c.arg(0)
    arr, loc = arr_at(c, v)
    x, _ = c.arg(1)
    if arr is None:
        c.ret(Int.boolean())
        return
    may = False
    ln = arr.len
    for k, cv in sorted((arr.cells or {}).items()):
        r = abs_eq(c, cv, x)
        if r is True and k < ln.lo:
            c.ret(Int.const(1, 1, False))
            return
        if r is not False and k < ln.hi:
            may = True
    n_cells = len(arr.cells or {})
    if ln.hi > n_cells and not arr.elem.is_bot():
        if abs_eq(c, arr.elem, x) is not False:
            may = True
    c.ret(Int.boolean() if may else Int.const(0, 1, False))


@model("std::iter::Iterator::zip")
def m_zip(c):
    """a.zip(b) over two slice-like iterators: pairs of items, as many as the shorter one has.  When both walk the same container from the start the
    two components of a pair are the same element (one cell stands for both)"""
    a, aloc = c.arg(0)
    b, bloc = c.arg(1)
    if isinstance(b, Ref):
        arr, bl_ = arr_at(c, b)
        if arr is not None:
            ln, _l = len_lin(c, arr, bl_)
            b = Iter("slice", ln, arr.elem if not arr.elem.is_bot() else Top(), start=bl_, extra="ref", cells=dict(arr.cells) if arr.cells else None, pos=0)
    if not (isinstance(a, Iter) and isinstance(b, Iter) and a.ikind == "slice" and b.ikind == "slice"):
        c.ret(Iter("opaque"))
        return
    ra = a.remaining if isinstance(a.remaining, Int) else usize()
    rb = b.remaining if isinstance(b.remaining, Int) else usize()
    rem = usize(min(ra.lo, rb.lo), min(ra.hi, rb.hi))
    ea = a.elem if a.elem is not None and not a.elem.is_bot() else Top()
    eb = b.elem if b.elem is not None and not b.elem.is_bot() else Top()
    for x in (a.cells or {}).values():
        ea = join_val(ea, x)
    for x in (b.cells or {}).values():
        eb = join_val(eb, x)
    ca = new_tmp(c, c.st, ea, "zipa")
    same = isinstance(a.start, tuple) and a.start == b.start and a.extra == "ref" and b.extra == "ref" and (a.pos or 0) == (b.pos or 0)
    cb = ca if same else new_tmp(c, c.st, eb, "zipb")
    ia = Ref(ca, ()) if a.extra == "ref" else ea
    ib = Ref(cb, ()) if b.extra == "ref" else eb
    c.ret(Iter("slice", rem, Struct("tuple", [ia, ib]), extra="val"))


@model("std::option::Option::as_ref", "std::result::Result::as_ref", "std::option::Option::as_mut", "std::result::Result::as_mut")
def m_as_ref(c):
    """&Option<T> -> Option<&T>, &Result<T, E> -> Result<&T, &E>: same variant, the payload by reference into the original"""
    e, loc, via_ref = enum_arg(c)
    if e is None or loc is None:
        c.ret_top()
        return
    mutable = c.name.endswith("as_mut")
    for idx, pay, s in split_enum(c, e, loc):
        if not pay:
            c.ret(Enum(e.path, {idx: ()}), st=s)
        else:
            c.ret(Enum(e.path, {idx: tuple(Ref(loc[0], loc[1] + (("v", idx), k), mutable) for k in range(len(pay)))}), st=s)
