"""lin — integer linear forms and a small constraint store (polyhedra-lite).

A LinForm is  c0 + Σ ci·xi  with integer coefficients over hashable variables.
A constraint is a LinForm L read as  L <= 0  (kind 'le') or  L == 0  (kind 'eq').

The store offers
  * entailment  (cons ∧ bounds ⊨ L <= 0)  by Fourier–Motzkin refutation over the
    connected component of the query (sound over the rationals, hence over Z),
  * elimination of a variable (Gaussian substitution when an equality mentions it,
    Fourier–Motzkin combination otherwise),
  * join (constraints of either side that the other side entails),
  * bound propagation into intervals.

Everything is over-approximating: when a size cap is hit the answer is "unknown".
"""
from math import gcd

FM_CAP = 120          # max constraints during one refutation
FM_VAR_CAP = 14       # max variables eliminated in one refutation


class LinForm:
    __slots__ = ("terms", "const", "_h")

    def __init__(self, terms=None, const=0):
        # terms: dict var -> int coef (non-zero)
        self.terms = {v: c for v, c in (terms or {}).items() if c != 0}
        self.const = const
        self._h = None

    # -- construction -------------------------------------------------------
    @staticmethod
    def var(v, coef=1):
        return LinForm({v: coef}, 0)

    @staticmethod
    def constant(c):
        return LinForm({}, c)

    def is_const(self):
        return not self.terms

    def single_var(self):
        """returns (var, coef, const) if the form is coef*var + const"""
        if len(self.terms) == 1:
            (v, c), = self.terms.items()
            return v, c, self.const
        return None

    def vars(self):
        return self.terms.keys()

    def __add__(self, o):
        if isinstance(o, int):
            return LinForm(self.terms, self.const + o)
        t = dict(self.terms)
        for v, c in o.terms.items():
            t[v] = t.get(v, 0) + c
        return LinForm(t, self.const + o.const)

    def __sub__(self, o):
        if isinstance(o, int):
            return LinForm(self.terms, self.const - o)
        t = dict(self.terms)
        for v, c in o.terms.items():
            t[v] = t.get(v, 0) - c
        return LinForm(t, self.const - o.const)

    def __neg__(self):
        return LinForm({v: -c for v, c in self.terms.items()}, -self.const)

    def scale(self, k):
        return LinForm({v: c * k for v, c in self.terms.items()}, self.const * k)

    def subst(self, var, repl):
        """replace var by LinForm repl (coefficient of var must divide after scaling: we allow
        rational solution var = repl/den by passing den)"""
        c = self.terms.get(var)
        if c is None:
            return self
        t = dict(self.terms)
        del t[var]
        return LinForm(t, self.const) + repl.scale(c)

    def key(self):
        return (tuple(sorted(self.terms.items(), key=lambda kv: repr(kv[0]))), self.const)

    def __eq__(self, o):
        return isinstance(o, LinForm) and self.terms == o.terms and self.const == o.const

    def __hash__(self):
        if self._h is None:
            self._h = hash((frozenset(self.terms.items()), self.const))
        return self._h

    def __repr__(self):
        parts = []
        for v, c in sorted(self.terms.items(), key=lambda kv: repr(kv[0])):
            parts.append("%s%s*%s" % ("+" if c >= 0 else "-", abs(c), v))
        parts.append("%+d" % self.const)
        return " ".join(parts)


MAX_TERMS = 4      # Fourier-Motzkin combinations with more variables than this are dropped (sound: fewer constraints)


def normalize(lf, kind):
    """divide by gcd of coefficients (tightening the constant for 'le' over integers)"""
    if not lf.terms:
        return lf
    g = 0
    for c in lf.terms.values():
        g = gcd(g, abs(c))
    if g <= 1:
        return lf
    if kind == "eq":
        if lf.const % g != 0:
            # no integer solution: keep as is (will be found infeasible by caller only via bounds)
            return lf
        return LinForm({v: c // g for v, c in lf.terms.items()}, lf.const // g)
    # Σ c x + k <= 0  with all c multiples of g  ==>  Σ (c/g) x + ceil(k/g) <= 0
    k = lf.const
    kk = -((-k) // g)  # ceil(k/g)
    return LinForm({v: c // g for v, c in lf.terms.items()}, kk)


class LeSet:
    """set of constraints  L + c <= 0  keeping, per linear part L, only the tightest constant"""
    __slots__ = ("d",)

    def __init__(self, items=None):
        self.d = {}
        if items is not None:
            if isinstance(items, LeSet):
                self.d = dict(items.d)
            else:
                for x in items:
                    self.add(x)

    @staticmethod
    def _key(lf):
        return frozenset(lf.terms.items())

    def add(self, lf):
        k = self._key(lf)
        old = self.d.get(k)
        if old is None or lf.const > old.const:
            self.d[k] = lf

    def discard(self, lf):
        k = self._key(lf)
        old = self.d.get(k)
        if old is not None and old.const == lf.const:
            del self.d[k]

    def remove_key(self, lf):
        self.d.pop(self._key(lf), None)

    def __contains__(self, lf):
        old = self.d.get(self._key(lf))
        return old is not None and old.const >= lf.const

    def __iter__(self):
        return iter(list(self.d.values()))

    def __len__(self):
        return len(self.d)

    def __bool__(self):
        return bool(self.d)


class OrderedSet:
    """insertion-ordered set (iteration order must not depend on string hashing)"""
    __slots__ = ("d",)

    def __init__(self, items=None):
        self.d = dict.fromkeys(items) if items else {}

    def add(self, x):
        self.d[x] = None

    def discard(self, x):
        self.d.pop(x, None)

    def __contains__(self, x):
        return x in self.d

    def __iter__(self):
        return iter(list(self.d))

    def __len__(self):
        return len(self.d)

    def __bool__(self):
        return bool(self.d)


class Cons:
    """immutable-ish set of constraints"""

    __slots__ = ("le", "eq")

    def __init__(self, le=None, eq=None):
        self.le = LeSet(le)
        self.eq = OrderedSet(eq)

    def copy(self):
        return Cons(self.le, self.eq)

    def __len__(self):
        return len(self.le) + len(self.eq)

    def all_vars(self):
        s = set()
        for c in self.le:
            s.update(c.terms)
        for c in self.eq:
            s.update(c.terms)
        return s

    # -- adding ---------------------------------------------------------------
    def add_le(self, lf):
        lf = normalize(lf, "le")
        if lf.is_const():
            return lf.const <= 0
        self.le.add(lf)
        return True

    def add_eq(self, lf):
        lf = normalize(lf, "eq")
        if lf.is_const():
            return lf.const == 0
        # canonical sign: first var (by repr) positive
        v0 = min(lf.terms, key=repr)
        if lf.terms[v0] < 0:
            lf = -lf
        self.eq.add(lf)
        return True

    def mentions(self, var):
        for c in self.le:
            if var in c.terms:
                return True
        for c in self.eq:
            if var in c.terms:
                return True
        return False

    # -- elimination ------------------------------------------------------------
    def eliminate(self, var, bounds=None, keep_bounds=False):
        """project out `var`.  bounds: optional (lo, hi) interval of var, used as extra constraints"""
        eqs = [c for c in self.eq if var in c.terms]
        if eqs:
            # prefer an equality with coefficient ±1
            eqs.sort(key=lambda c: (abs(c.terms[var]) != 1, len(c.terms)))
            e = eqs[0]
            a = e.terms[var]
            rest = LinForm({v: c for v, c in e.terms.items() if v != var}, e.const)
            if keep_bounds and bounds is not None and abs(a) == 1 and len(rest.terms) >= 2:
                sol = (-rest) if a == 1 else rest       # var == sol
                lo, hi = bounds
                diff = len(sol.terms) == 2 and sorted(sol.terms.values()) == [-1, 1]     # var == x - y: var >= 0 is the ordering fact y <= x
                if lo is not None and lo > -(1 << 62) and (lo != 0 or keep_bounds == "all" or diff):
                    self.le.add(normalize(LinForm.constant(lo) - sol, "le"))
                if hi is not None and hi < (1 << 62):
                    self.le.add(normalize(sol - hi, "le"))
            # a*var + rest = 0  ->  var = -rest/a
            new_le = LeSet()
            for c in self.le:
                if var in c.terms:
                    k = c.terms[var]
                    # multiply c by |a|, substitute a*var = -rest
                    cc = c.scale(abs(a))
                    coef = cc.terms[var]  # = k*|a|
                    t = dict(cc.terms)
                    del t[var]
                    cc2 = LinForm(t, cc.const) + rest.scale(-(coef // a))
                    cc2 = normalize(cc2, "le")
                    if not cc2.is_const():
                        new_le.add(cc2)
                else:
                    new_le.add(c)
            new_eq = OrderedSet()
            for c in self.eq:
                if c is e:
                    continue
                if var in c.terms:
                    cc = c.scale(abs(a))
                    coef = cc.terms[var]
                    t = dict(cc.terms)
                    del t[var]
                    cc2 = LinForm(t, cc.const) + rest.scale(-(coef // a))
                    cc2 = normalize(cc2, "eq")
                    if not cc2.is_const():
                        v0 = min(cc2.terms, key=repr)
                        if cc2.terms[v0] < 0:
                            cc2 = -cc2
                        new_eq.add(cc2)
                else:
                    new_eq.add(c)
            self.le, self.eq = new_le, new_eq
            return
        ups = []   # coefficient > 0 :  a*var + p <= 0   (upper bounds on var)
        los = []   # coefficient < 0
        keep = LeSet()
        for c in self.le:
            k = c.terms.get(var)
            if k is None:
                keep.add(c)
            elif k > 0:
                ups.append(c)
            else:
                los.append(c)
        if bounds is not None:
            lo, hi = bounds
            if hi is not None:
                ups.append(LinForm({var: 1}, -hi))
            if lo is not None:
                los.append(LinForm({var: -1}, lo))
        if len(ups) * len(los) <= 64:
            for u in ups:
                a = u.terms[var]
                for l in los:
                    b = -l.terms[var]
                    comb = u.scale(b) + l.scale(a)
                    comb = normalize(comb, "le")
                    if not comb.is_const() and len(comb.terms) <= MAX_TERMS:
                        keep.add(comb)
        self.le = keep

    def eliminate_many(self, vars_, bounds_of=None):
        for v in vars_:
            if self.mentions(v):
                self.eliminate(v, bounds_of(v) if bounds_of else None)

    # -- entailment -------------------------------------------------------------
    def entails_le(self, lf, bounds_of):
        """does  cons ∧ bounds  imply  lf <= 0 ?   bounds_of(var) -> (lo, hi) (None = unbounded)"""
        # quick: interval evaluation
        hi = sup(lf, bounds_of)
        if hi is not None and hi <= 0:
            return True
        if not lf.terms:
            return lf.const <= 0
        # syntactic: a stored constraint with the same linear part and a constant at least as tight
        n = normalize(lf, "le")
        old = self.le.d.get(LeSet._key(n))
        if old is not None and old.const >= n.const:
            return True
        for e in self.eq:
            if len(e.terms) == len(lf.terms):
                for sgn in (e, -e):
                    if sgn.terms == n.terms and sgn.const >= n.const:
                        return True
        # refutation of  cons ∧ lf >= 1   i.e.  -lf + 1 <= 0
        neg = (-lf) + 1
        return self._infeasible_with(neg, bounds_of)

    def entails_eq(self, lf, bounds_of):
        return self.entails_le(lf, bounds_of) and self.entails_le(-lf, bounds_of)

    def _component(self, seed_vars):
        comp = set(seed_vars)
        cons = []
        pool_le = list(self.le)
        pool_eq = list(self.eq)
        changed = True
        used_le = set()
        used_eq = set()
        while changed:
            changed = False
            for i, c in enumerate(pool_le):
                if i in used_le:
                    continue
                if any(v in comp for v in c.terms):
                    used_le.add(i)
                    comp.update(c.terms)
                    changed = True
            for i, c in enumerate(pool_eq):
                if i in used_eq:
                    continue
                if any(v in comp for v in c.terms):
                    used_eq.add(i)
                    comp.update(c.terms)
                    changed = True
        les = [pool_le[i] for i in used_le]
        eqs = [pool_eq[i] for i in used_eq]
        return comp, les, eqs

    def _infeasible_with(self, extra, bounds_of):
        comp, les, eqs = self._component(extra.terms.keys())
        if not les and not eqs:
            return False      # only interval information: the caller's sup() test already covered it
        if len(les) + len(eqs) > 28:
            # keep the constraints closest to the query (by shared variables, then sparsity); dropping constraints is sound
            # breadth-first distance of every variable from the query (through shared constraints): a proof is a chain of constraints
            # starting at the query, so the closest ones are kept
            qv = set(extra.terms)
            dist = {v: 0 for v in qv}
            frontier = set(qv)
            allc = les + eqs
            d = 0
            while frontier and d < 8:
                d += 1
                nxt = set()
                for c in allc:
                    if any(v in frontier for v in c.terms):
                        for v in c.terms:
                            if v not in dist:
                                dist[v] = d
                                nxt.add(v)
                frontier = nxt

            def rank(c):
                ds = sorted(dist.get(v, 99) for v in c.terms)
                return (ds[0], ds[-1], len(c.terms), abs(c.const) > (1 << 40))
            les = sorted(les, key=rank)[:22]
            eqs = sorted(eqs, key=rank)[:10]
            comp = set(qv)
            for c in les + eqs:
                comp.update(c.terms)
        work = list(les) + [extra]
        for e in eqs:
            work.append(e)
            work.append(-e)
        for v in comp:
            lo, hi = bounds_of(v)
            if hi is not None:
                work.append(LinForm({v: 1}, -hi))
            if lo is not None:
                work.append(LinForm({v: -1}, lo))
        return fm_infeasible(work)

    def feasible(self, bounds_of):
        """cheap necessary check: is some single constraint violated by the bounds?"""
        for c in self.le:
            lo = inf(c, bounds_of)
            if lo is not None and lo > 0:
                return False
        for c in self.eq:
            lo = inf(c, bounds_of)
            hi = sup(c, bounds_of)
            if (lo is not None and lo > 0) or (hi is not None and hi < 0):
                return False
        return True

    def key(self):
        return (frozenset(self.le.d.values()), frozenset(self.eq.d))


def sup(lf, bounds_of):
    tot = lf.const
    for v, c in lf.terms.items():
        lo, hi = bounds_of(v)
        if c > 0:
            if hi is None:
                return None
            tot += c * hi
        else:
            if lo is None:
                return None
            tot += c * lo
    return tot


def inf(lf, bounds_of):
    tot = lf.const
    for v, c in lf.terms.items():
        lo, hi = bounds_of(v)
        if c > 0:
            if lo is None:
                return None
            tot += c * lo
        else:
            if hi is None:
                return None
            tot += c * hi
    return tot


def fm_infeasible(cons):
    """Fourier–Motzkin refutation.  cons: list of LinForm (<= 0).  True if provably infeasible."""
    work = set()
    for c in cons:
        c = normalize(c, "le")
        if c.is_const():
            if c.const > 0:
                return True
            continue
        work.add(c)
    nvars = 0
    while work:
        # pick var with fewest (ups*los)
        occ = {}
        for c in work:
            for v, k in c.terms.items():
                u, l = occ.get(v, (0, 0))
                if k > 0:
                    occ[v] = (u + 1, l)
                else:
                    occ[v] = (u, l + 1)
        if not occ:
            break
        var = min(occ, key=lambda v: (occ[v][0] * occ[v][1], repr(v)))
        nvars += 1
        if nvars > FM_VAR_CAP + 20:
            return False
        ups, los, rest = [], [], set()
        for c in work:
            k = c.terms.get(var)
            if k is None:
                rest.add(c)
            elif k > 0:
                ups.append(c)
            else:
                los.append(c)
        if len(ups) * len(los) + len(rest) > FM_CAP * 2:
            return False
        for u in ups:
            a = u.terms[var]
            for l in los:
                b = -l.terms[var]
                comb = normalize(u.scale(b) + l.scale(a), "le")
                if comb.is_const():
                    if comb.const > 0:
                        return True
                else:
                    rest.add(comb)
        work = rest
        if len(work) > FM_CAP:
            # keep the sparsest
            work = set(sorted(work, key=lambda c: (len(c.terms), repr(c)))[:FM_CAP])
    return False


RELAX_LIMIT = 1 << 40


def _relaxed(c, other, bounds_other):
    """weakest-constant variant of c (same linear part) that `other` satisfies, if it is not hopelessly slack"""
    lin = LinForm(c.terms, 0)
    k = None
    same = other.le.d.get(LeSet._key(c))
    if same is not None:
        k = same.const
    s = sup(lin, bounds_other)
    if s is not None and abs(s) <= RELAX_LIMIT:
        k = -s if k is None else max(k, -s)
    if k is None:
        return None
    k = min(k, c.const)
    return LinForm(c.terms, k)


def join_cons(a, b, bounds_a, bounds_b, candidates_extra=(), relax=True):
    """constraints holding in both: those of a entailed by b and vice versa"""
    out = Cons()
    for c in a.eq:
        if c in b.eq or b.entails_eq(c, bounds_b):
            out.eq.add(c)
        else:
            if b.entails_le(c, bounds_b):
                out.le.add(c)
            elif b.entails_le(-c, bounds_b):
                out.le.add(-c)
    for c in b.eq:
        if c in out.eq:
            continue
        if a.entails_eq(c, bounds_a):
            out.eq.add(c)
        else:
            if a.entails_le(c, bounds_a):
                out.le.add(c)
            elif a.entails_le(-c, bounds_a):
                out.le.add(-c)
    for c in a.le:
        if c in b.le or b.entails_le(c, bounds_b):
            out.le.add(c)
        else:
            r = _relaxed(c, b, bounds_b) if relax else None
            if r is not None:
                out.le.add(r)
    for c in b.le:
        if c in out.le:
            continue
        if not relax:
            old = a.le.d.get(LeSet._key(c))
            if old is not None and old.const != c.const:
                continue        # same linear part, constant moving from visit to visit: drifting, dropped instead of followed
        if a.entails_le(c, bounds_a):
            out.le.add(c)
        else:
            r = _relaxed(c, a, bounds_a) if relax else None
            if r is not None:
                out.le.add(r)
    for c in candidates_extra:
        if c in out.le:
            continue
        if a.entails_le(c, bounds_a) and b.entails_le(c, bounds_b):
            out.le.add(c)
    return out
