"""mirlib — utilities over the μMIR JSON emitted by /verif/driver (mir2json).

Everything here is stdlib-only.  A `Program` is the union of the fact files of one
build configuration; a `Body` wraps one function / closure / promoted body and offers
CFG queries (successors, dominators, post-dominators, reachability), pretty printing
with source names, and call-site enumeration with resolved callees.
"""
import json
import os
import re
from collections import defaultdict, deque

# ----------------------------------------------------------------------------
# path normalisation
# ----------------------------------------------------------------------------
_GENERIC = re.compile(r"::<[^<>]*(?:<[^<>]*(?:<[^<>]*>[^<>]*)*>[^<>]*)*>")


def strip_generics(path):
    """`tag_iterator::TagIterator::<R, TSpec>::next` -> `tag_iterator::TagIterator::next`"""
    prev = None
    while prev != path:
        prev = path
        path = _GENERIC.sub("", path)
    return path


class Span:
    __slots__ = ("file", "line", "col", "eline", "ecol", "exp")

    def __init__(self, d):
        self.file = d.get("file", "?")
        self.line = d.get("line", 0)
        self.col = d.get("col", 0)
        self.eline = d.get("eline", 0)
        self.ecol = d.get("ecol", 0)
        self.exp = d.get("exp", False)

    def __str__(self):
        return "%s:%d:%d" % (self.file, self.line, self.col)


def ty_str(t):
    return t.get("s", "?") if t else "?"


def is_int_ty(t):
    return t and t.get("k") in ("int", "uint")


# ----------------------------------------------------------------------------
# rendering
# ----------------------------------------------------------------------------
def place_str(p, body=None):
    s = "_%d" % p["local"]
    if body is not None:
        nm = body.local_name(p["local"])
        if nm:
            s = nm
    for e in p["proj"]:
        k = e["k"]
        if k == "deref":
            s = "(*%s)" % s
        elif k == "field":
            s = "%s.%s" % (s, e["name"] if e.get("name") is not None else e["i"])
        elif k == "index":
            idx = "_%d" % e["local"]
            if body is not None and body.local_name(e["local"]):
                idx = body.local_name(e["local"])
            s = "%s[%s]" % (s, idx)
        elif k == "cindex":
            s = "%s[%s%d]" % (s, "-" if e["from_end"] else "", e["offset"])
        elif k == "subslice":
            s = "%s[%d..%s%d]" % (s, e["from"], "-" if e["from_end"] else "", e["to"])
        elif k == "downcast":
            s = "(%s as %s)" % (s, e.get("variant"))
        else:
            s = "%s.<%s>" % (s, k)
    return s


def operand_str(o, body=None):
    k = o["k"]
    if k in ("copy", "move"):
        return ("move " if k == "move" else "") + place_str(o["place"], body)
    if k == "const":
        if "fn" in o:
            return "fn " + o["fn"]["path"]
        if "v" in o:
            return "const %s" % o["v"]
        if "cparam" in o:
            return "const %s" % o["cparam"]
        if "promoted" in o:
            return "promoted[%d]" % o["promoted"]
        if "def" in o:
            return "const %s" % o["def"]
        return "const %s" % o.get("s", "?")
    return "<%s>" % k


def rvalue_str(rv, body=None):
    k = rv["k"]
    if k == "use":
        return operand_str(rv["op"], body)
    if k == "ref":
        return ("&mut " if rv["mut"] else "&") + place_str(rv["place"], body)
    if k == "rawptr":
        return "&raw " + place_str(rv["place"], body)
    if k == "binop":
        return "%s(%s, %s)" % (rv["op"], operand_str(rv["a"], body), operand_str(rv["b"], body))
    if k == "unop":
        return "%s(%s)" % (rv["op"], operand_str(rv["a"], body))
    if k == "cast":
        return "%s as %s [%s]" % (operand_str(rv["op"], body), ty_str(rv["ty"]), rv["kind"])
    if k == "discr":
        return "discriminant(%s)" % place_str(rv["place"], body)
    if k == "agg":
        ops = ", ".join(operand_str(o, body) for o in rv["ops"])
        a = rv["agg"]
        if a == "adt":
            return "%s::%s{%s}" % (rv["path"], rv["variant"], ops)
        if a == "closure":
            return "closure %s [%s]" % (rv["def"], ops)
        return "%s(%s)" % (a, ops)
    if k == "repeat":
        return "[%s; %s]" % (operand_str(rv["op"], body), rv["count"].get("s"))
    return "<%s>" % k


def stmt_str(st, body=None):
    k = st["k"]
    if k == "assign":
        return "%s = %s" % (place_str(st["place"], body), rvalue_str(st["rv"], body))
    if k == "setdiscr":
        return "discriminant(%s) = %d" % (place_str(st["place"], body), st["variant_i"])
    if k in ("live", "dead"):
        return "Storage%s(_%d)" % ("Live" if k == "live" else "Dead", st["local"])
    return "<%s %s>" % (k, st.get("s", ""))


def term_str(t, body=None):
    k = t["k"]
    if k == "goto":
        return "goto bb%d" % t["target"]
    if k == "switch":
        return "switchInt(%s) -> [%s, otherwise: bb%d]" % (
            operand_str(t["discr"], body),
            ", ".join("%d: bb%d" % (v, b) for v, b in t["targets"]),
            t["otherwise"],
        )
    if k == "return":
        return "return"
    if k == "unreachable":
        return "unreachable"
    if k == "drop":
        return "drop(%s) -> bb%d" % (place_str(t["place"], body), t["target"])
    if k == "call":
        return "%s = %s(%s) -> %s" % (
            place_str(t["dest"], body),
            callee_name(t) or operand_str(t["func"], body),
            ", ".join(operand_str(a, body) for a in t["args"]),
            "bb%d" % t["target"] if t["target"] is not None else "!",
        )
    if k == "assert":
        return "assert(%s%s, %s(%s)) -> bb%d" % (
            "" if t["expected"] else "!",
            operand_str(t["cond"], body),
            t["kind"],
            ", ".join(operand_str(a, body) for a in t["ops"]),
            t["target"],
        )
    return "<%s>" % k


def callee_of(term):
    """Returns the callee dict of a call terminator (or None for indirect calls)."""
    if term["k"] != "call":
        return None
    f = term["func"]
    if f["k"] == "const" and "fn" in f:
        return f["fn"]
    return None


def callee_name(term):
    c = callee_of(term)
    if c is None:
        return None
    return strip_generics(c["path"])


def callee_resolved_name(term):
    """Path of the resolved instance if the trait call was resolved, else the declared path."""
    c = callee_of(term)
    if c is None:
        return None
    if "resolved" in c:
        return strip_generics(c["resolved"]["path"])
    return strip_generics(c["path"])


# ----------------------------------------------------------------------------
# Body
# ----------------------------------------------------------------------------
class Body:
    def __init__(self, d, program):
        self.d = d
        self.program = program
        self.def_path = d["def_path"]
        self.path = strip_generics(d["def_path"])
        self.kind = d["kind"]
        self.crate = d["crate"]
        self.promoted_index = d.get("promoted_index")
        self.key = self.path if self.promoted_index is None else "%s::promoted[%d]" % (self.path, self.promoted_index)
        self.name = d.get("name") or self.path.split("::")[-1]
        self.blocks = d["blocks"]
        self.locals = d["locals"]
        self.arg_count = d["arg_count"]
        self.span = Span(d["span"])
        self.parent = strip_generics(d["parent"]) if "parent" in d else None
        self.immediate_parent = strip_generics(d["immediate_parent"]) if "immediate_parent" in d else None
        self.vis = d.get("vis")
        self._succ = None
        self._pred = None
        self._dom = None
        self._pdom = None
        self._reach = None

    # -- naming -------------------------------------------------------------
    def local_name(self, i):
        return self.locals[i].get("name")

    def local_ty(self, i):
        return self.locals[i]["ty"]

    def locals_named(self, name):
        return [i for i, l in enumerate(self.locals) if l.get("name") == name]

    # -- CFG ------------------------------------------------------------------
    def term(self, bb):
        return self.blocks[bb]["term"]

    def successors(self, bb, include_unwind=False):
        t = self.blocks[bb]["term"]
        k = t["k"]
        if k == "goto":
            return [t["target"]]
        if k == "switch":
            out = [b for _, b in t["targets"]]
            out.append(t["otherwise"])
            return out
        if k in ("drop", "assert"):
            return [t["target"]]
        if k == "call":
            return [t["target"]] if t["target"] is not None else []
        return []

    def edges(self, bb):
        """list of (label, target): label is ('goto',) / ('switch', value|None) / ('ok',)"""
        t = self.blocks[bb]["term"]
        k = t["k"]
        if k == "goto":
            return [(("goto",), t["target"])]
        if k == "switch":
            out = [(("switch", v), b) for v, b in t["targets"]]
            out.append((("switch", None), t["otherwise"]))
            return out
        if k in ("drop", "assert"):
            return [(("ok",), t["target"])]
        if k == "call":
            return [(("ok",), t["target"])] if t["target"] is not None else []
        return []

    def live_blocks(self):
        """Blocks reachable from bb0 along non-unwind edges."""
        if self._reach is None:
            seen = {0}
            dq = deque([0])
            while dq:
                b = dq.popleft()
                for s in self.successors(b):
                    if s not in seen:
                        seen.add(s)
                        dq.append(s)
            self._reach = seen
        return self._reach

    def preds(self):
        if self._pred is None:
            p = defaultdict(list)
            for b in self.live_blocks():
                for s in self.successors(b):
                    p[s].append(b)
            self._pred = p
        return self._pred

    def exits(self):
        """blocks whose terminator is `return`"""
        return [b for b in sorted(self.live_blocks()) if self.blocks[b]["term"]["k"] == "return"]

    def diverging_blocks(self):
        """live blocks with no successors that are not `return` (panics, unreachable)."""
        out = []
        for b in sorted(self.live_blocks()):
            t = self.blocks[b]["term"]
            if t["k"] != "return" and not self.successors(b):
                out.append(b)
        return out

    def dominators(self, removed_edges=frozenset()):
        """dom[b] = set of blocks dominating b (including b); over live blocks from bb0."""
        if self._dom is not None and not removed_edges:
            return self._dom
        live = sorted(self.live_blocks())
        preds = defaultdict(list)
        for b in live:
            for s in self.successors(b):
                if (b, s) not in removed_edges:
                    preds[s].append(b)
        # recompute reachability under removed edges
        reach = {0}
        dq = deque([0])
        while dq:
            b = dq.popleft()
            for s in self.successors(b):
                if (b, s) in removed_edges:
                    continue
                if s not in reach:
                    reach.add(s)
                    dq.append(s)
        full = set(reach)
        dom = {b: set(full) for b in reach}
        dom[0] = {0}
        changed = True
        order = sorted(reach)
        while changed:
            changed = False
            for b in order:
                if b == 0:
                    continue
                ps = [p for p in preds[b] if p in reach]
                if not ps:
                    new = {b}
                else:
                    new = set.intersection(*(dom[p] for p in ps)) | {b}
                if new != dom[b]:
                    dom[b] = new
                    changed = True
        if not removed_edges:
            self._dom = dom
        return dom

    def reachable_from(self, start, removed_edges=frozenset(), stop=frozenset()):
        seen = {start}
        dq = deque([start])
        while dq:
            b = dq.popleft()
            if b in stop:
                continue
            for s in self.successors(b):
                if (b, s) in removed_edges:
                    continue
                if s not in seen:
                    seen.add(s)
                    dq.append(s)
        return seen

    def can_reach(self, targets, removed_edges=frozenset()):
        """set of blocks from which some block in `targets` is reachable"""
        targets = set(targets)
        rev = defaultdict(list)
        for b in self.live_blocks():
            for s in self.successors(b):
                if (b, s) not in removed_edges:
                    rev[s].append(b)
        seen = set(targets)
        dq = deque(targets)
        while dq:
            b = dq.popleft()
            for p in rev[b]:
                if p not in seen:
                    seen.add(p)
                    dq.append(p)
        return seen

    def edge_dominates(self, edge, bb, removed_edges=frozenset()):
        """True if every path bb0 -> bb (avoiding removed edges) uses `edge` (a,b)."""
        if bb not in self.reachable_from(0, removed_edges):
            return True
        r = self.reachable_from(0, frozenset(removed_edges) | {edge})
        return bb not in r

    # -- queries ------------------------------------------------------------
    def calls(self, live_only=True):
        """yield (bb, term, callee_dict)"""
        blocks = sorted(self.live_blocks()) if live_only else range(len(self.blocks))
        for b in blocks:
            t = self.blocks[b]["term"]
            if t["k"] == "call":
                yield b, t, callee_of(t)

    def calls_to(self, pred, live_only=True):
        """pred: str (exact stripped path) or callable(name, callee)"""
        out = []
        for b, t, c in self.calls(live_only):
            if c is None:
                continue
            nm = strip_generics(c["path"])
            ok = (nm == pred) if isinstance(pred, str) else pred(nm, c)
            if ok:
                out.append((b, t, c))
        return out

    def statements(self, live_only=True):
        blocks = sorted(self.live_blocks()) if live_only else range(len(self.blocks))
        for b in blocks:
            for i, st in enumerate(self.blocks[b]["stmts"]):
                yield b, i, st

    def dump(self):
        out = ["fn %s  (%s)" % (self.key, self.span)]
        for i, l in enumerate(self.locals):
            out.append("  let _%d: %s%s" % (i, ty_str(l["ty"]), ("  // " + l["name"]) if l.get("name") else ""))
        for b, blk in enumerate(self.blocks):
            if blk["cleanup"]:
                continue
            out.append("  bb%d:" % b)
            for st in blk["stmts"]:
                if st["k"] in ("live", "dead"):
                    continue
                out.append("    %s" % stmt_str(st, None))
            out.append("    %s" % term_str(blk["term"], None))
        return "\n".join(out)


# ----------------------------------------------------------------------------
# Program
# ----------------------------------------------------------------------------
class Program:
    def __init__(self, fact_dir, crates=None):
        self.fact_dir = fact_dir
        self.crates = {}
        self.bodies = {}          # key -> Body
        self.by_path = defaultdict(list)
        self.adts = {}
        self.consts = {}
        self.source_files = []
        self.features = {}
        loaded = []
        for fn in sorted(os.listdir(fact_dir)):
            if not fn.endswith(".json"):
                continue
            with open(os.path.join(fact_dir, fn)) as f:
                loaded.append(json.load(f))
        # private items that were merely renamed get their reference names back (see canon.py); what was renamed is reported
        self.renamed = []
        if os.environ.get("VERIF_NO_CANON") != "1":
            import canon
            self.renamed = canon.canonicalise(loaded)
        for d in loaded:
            cname = d["crate"]
            if crates is not None and cname not in crates:
                continue
            self.crates[cname] = d
            self.features[cname] = d.get("features", [])
            for sf in d["source_files"]:
                self.source_files.append((cname, sf))
            for a in d["adts"]:
                self.adts[strip_generics(a["path"])] = a
            for c in d["consts"]:
                self.consts[strip_generics(c["path"])] = c
            for bd in d["bodies"]:
                b = Body(bd, self)
                self.bodies[b.key] = b
                self.by_path[b.path].append(b)

    def body(self, path):
        b = self.bodies.get(path)
        if b is None:
            raise KeyError("no body for %s" % path)
        return b

    def find(self, suffix):
        """bodies whose path ends with `suffix` (e.g. 'TagIterator::read_next')"""
        return [b for k, b in self.bodies.items() if b.promoted_index is None and (k == suffix or k.endswith("::" + suffix))]

    def one(self, suffix):
        r = self.find(suffix)
        if len(r) != 1:
            raise KeyError("expected exactly one body matching %r, found %d: %s" % (suffix, len(r), [b.key for b in r]))
        return r[0]

    def closures_of(self, parent_path):
        return [b for b in self.bodies.values() if b.kind == "closure" and b.parent == parent_path]

    def promoted(self, path, idx):
        return self.bodies.get("%s::promoted[%d]" % (path, idx))

    def callers_of(self, callee_path):
        """list of (Body, bb, term) for every call whose declared or resolved path equals callee_path"""
        out = []
        for b in self.bodies.values():
            if b.promoted_index is not None:
                continue
            for bb, t, c in b.calls():
                if c is None:
                    continue
                if strip_generics(c["path"]) == callee_path or (
                    "resolved" in c and strip_generics(c["resolved"]["path"]) == callee_path
                ):
                    out.append((b, bb, t))
        return out

    def function_root(self, body):
        """the non-closure function a closure belongs to (itself for fns)"""
        if body.kind == "closure":
            return self.bodies.get(body.parent)
        return body


# ----------------------------------------------------------------------------
# liveness of locals (used by the abstract interpreter to drop dead temporaries before joins)
# ----------------------------------------------------------------------------
def _place_uses(p, out, as_def=False):
    """locals read by evaluating place p (its base unless it is a plain definition, plus index locals)"""
    if not as_def or p["proj"]:
        out.add(p["local"])
    for e in p["proj"]:
        if e["k"] == "index":
            out.add(e["local"])


def _operand_uses(o, out):
    if o.get("k") in ("copy", "move"):
        _place_uses(o["place"], out)


def _rvalue_uses(rv, out, borrowed):
    k = rv["k"]
    for key in ("op", "a", "b"):
        if key in rv and isinstance(rv[key], dict):
            _operand_uses(rv[key], out)
    for o in rv.get("ops", ()):
        _operand_uses(o, out)
    if "place" in rv:
        _place_uses(rv["place"], out)
        if k in ("ref", "rawptr"):
            p = rv["place"]
            if not any(e["k"] == "deref" for e in p["proj"]):
                borrowed.add(p["local"])


def body_liveness(body):
    """-> (live_in: dict bb -> frozenset(locals), borrowed: set(locals))"""
    n = len(body.blocks)
    use = [set() for _ in range(n)]
    dfn = [set() for _ in range(n)]
    borrowed = set()
    for b in range(n):
        u, d = use[b], dfn[b]

        def see_use(tmp):
            for l in tmp:
                if l not in d:
                    u.add(l)
        for st in body.blocks[b]["stmts"]:
            if st["k"] == "assign":
                tmp = set()
                _rvalue_uses(st["rv"], tmp, borrowed)
                _place_uses(st["place"], tmp, as_def=True)
                see_use(tmp)
                if not st["place"]["proj"]:
                    d.add(st["place"]["local"])
            elif st["k"] == "setdiscr":
                tmp = set()
                _place_uses(st["place"], tmp)
                see_use(tmp)
        t = body.blocks[b]["term"]
        tmp = set()
        k = t["k"]
        if k == "switch":
            _operand_uses(t["discr"], tmp)
        elif k == "drop":
            _place_uses(t["place"], tmp)
        elif k == "assert":
            _operand_uses(t["cond"], tmp)
            for o in t["ops"]:
                _operand_uses(o, tmp)
        elif k == "call":
            _operand_uses(t["func"], tmp)
            for o in t["args"]:
                _operand_uses(o, tmp)
            _place_uses(t["dest"], tmp, as_def=True)
        elif k == "return":
            tmp.add(0)
        see_use(tmp)
        if k == "call" and not t["dest"]["proj"]:
            d.add(t["dest"]["local"])
    live_in = [set() for _ in range(n)]
    live_out = [set() for _ in range(n)]
    changed = True
    order = list(range(n - 1, -1, -1))
    while changed:
        changed = False
        for b in order:
            lo = set()
            for s in body.successors(b):
                lo |= live_in[s]
            li = use[b] | (lo - dfn[b])
            if li != live_in[b] or lo != live_out[b]:
                live_in[b], live_out[b] = li, lo
                changed = True
    return {b: frozenset(live_in[b]) for b in range(n)}, borrowed
