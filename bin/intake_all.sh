#!/bin/bash
# intake_all.sh <agentdir> ... : confirm + evaluate every out/<id> not yet processed
for A in "$@"; do
  for D in $A/out/*/; do
    ID=$(basename $D); TAG=$(basename $A)_$ID
    [ -f /tmp/g4/res/$TAG.txt ] && continue
    mkdir -p /tmp/g4/res
    { echo "== $TAG"; if [ -f $D/demo.rs ]; then /verif/bin/confirm_seed.sh $D $TAG; fi; SHOW=6 JOBS=8 /verif/bin/eval_patch.sh $D/patch.diff $TAG | grep -v "rc=0 viol=0"; } > /tmp/g4/res/$TAG.txt 2>&1
    cat /tmp/g4/res/$TAG.txt | cut -c1-400
  done
done
