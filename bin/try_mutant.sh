#!/bin/bash
# usage: try_mutant.sh <patch.diff> <Cxx> [<Cxx>...]   — apply to /repo, run the checks (no evidence written), undo.
PATCH="$1"; shift
cd /repo || exit 2
if ! git diff --quiet; then echo "repo dirty, refusing"; exit 2; fi
git apply "$PATCH" || { echo "patch does not apply"; exit 2; }
trap 'git -C /repo checkout -- . ' EXIT
for P in "$@"; do
  /verif/check "$P" --no-evidence 2>&1 | grep -E "^(VIOLATION|KNOWN|C[0-9]+:)" | cut -c1-260
done
