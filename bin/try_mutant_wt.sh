#!/bin/bash
# usage: try_mutant_wt.sh <patch.diff> <Cxx> [...] — like try_mutant.sh but in the scratch worktree /tmp/mutwt (leaves /repo alone)
PATCH="$1"; shift
WT=${MUTWT:-/tmp/mutwt}
cd "$WT" || exit 2
git checkout -q -- . ; git clean -fdq -e target
git apply "$PATCH" || { echo "patch does not apply"; exit 2; }
for P in "$@"; do
  /verif/check "$P" --no-evidence --repo "$WT" 2>&1 | grep -E "^(VIOLATION|KNOWN|C[0-9]+:)" | cut -c1-240
done
git checkout -q -- .
