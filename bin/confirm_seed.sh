#!/bin/bash
# usage: confirm_seed.sh <dir with patch.diff demo.rs> <name>
# Confirms in a scratch worktree: demo passes on clean tree; with the patch the baseline suite and the derive-spec suite pass and the demo fails.
D="$(readlink -f "$1")"; NAME="$2"
WT=/tmp/confwt/$NAME; TG=/tmp/conftgt   # shared target dir across confirmations (serial use only)
mkdir -p /tmp/confwt
git -C /repo worktree remove --force "$WT" 2>/dev/null
git -C /repo worktree add --detach "$WT" HEAD >/dev/null 2>&1 || exit 2
cd "$WT"
export CARGO_TARGET_DIR=$TG CARGO_NET_OFFLINE=true
cp "$D/demo.rs" tests/zz_demo.rs
if cargo test --offline --features derive-spec --test zz_demo >/tmp/confwt/$NAME.clean.log 2>&1; then echo "demo on clean tree: pass"; else echo "demo on clean tree: FAIL"; fi
rm tests/zz_demo.rs
if git apply "$D/patch.diff"; then echo "patch applies: yes"; else echo "patch applies: NO"; fi
if cargo test --offline >/tmp/confwt/$NAME.base.log 2>&1; then echo "baseline suite with change: pass ($(grep -h 'test result' /tmp/confwt/$NAME.base.log | awk '{s+=$4} END{print s}') tests ok)"; else echo "baseline suite with change: FAIL"; fi
if cargo test --offline --features derive-spec >/tmp/confwt/$NAME.derive.log 2>&1; then echo "derive-spec suite with change: pass"; else echo "derive-spec suite with change: FAIL"; fi
cp "$D/demo.rs" tests/zz_demo.rs
if cargo test --offline --features derive-spec --test zz_demo >/tmp/confwt/$NAME.mut.log 2>&1; then echo "demo with change: PASSES (not a demonstration)"; else echo "demo with change: fails (confirmed)"; grep -h -m2 -E "panicked|assertion" /tmp/confwt/$NAME.mut.log | cut -c1-200; fi
cd /; git -C /repo worktree remove --force "$WT"
