#!/bin/bash
# usage: dump_mir.sh <repo_dir> <out_dir> [cargo feature args...]
# Runs the mir2json driver over the crates of <repo_dir> with a fresh target dir.
set -euo pipefail
REPO="$1"; OUT="$2"; shift 2
HERE="$(cd "$(dirname "$0")/.." && pwd)"
DRV="$HERE/driver/target/debug/mir2json"
[ -x "$DRV" ] || { echo "dump_mir: driver not built ($DRV); run setup" >&2; exit 2; }
SYSROOT="$(rustc +nightly --print sysroot)"
TGT="$(mktemp -d /tmp/verif-tgt.XXXXXX)"
trap 'rm -rf "$TGT"' EXIT
mkdir -p "$OUT"
cd "$REPO"
LD_LIBRARY_PATH="$SYSROOT/lib" \
RUSTFLAGS="-Zmir-opt-level=0 -Awarnings" \
RUSTC_WRAPPER="$DRV" \
MIR2JSON_OUT="$OUT" \
CARGO_NET_OFFLINE=true \
CARGO_TARGET_DIR="$TGT" \
cargo +nightly check --offline --quiet "$@" 2> "$OUT/cargo.stderr" || { cat "$OUT/cargo.stderr" >&2; echo "dump_mir: cargo check failed" >&2; exit 3; }
