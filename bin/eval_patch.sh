#!/bin/bash
# usage: eval_patch.sh <patch.diff> <name> [Cxx ...]
# Applies the patch in a fresh scratch worktree of /repo (/tmp/evalwt/<name>), runs the given checks (default: all claimed)
# in parallel with --no-evidence, prints one line per check (rc, number of violations, first keys), removes the worktree.
PATCH="$(readlink -f "$1")"; NAME="$2"; shift 2
CHECKS="$*"
[ -n "$CHECKS" ] || CHECKS="C01 C03 C04 C05 C06 C07 C09 C10 C11 C12 C13 C14 C15 C16 C17 C18 C19"
WT=/tmp/evalwt/$NAME
OUT=/tmp/evalout/$NAME
mkdir -p /tmp/evalwt "$OUT"
git -C /repo worktree remove --force "$WT" 2>/dev/null
git -C /repo worktree add --detach "$WT" HEAD >/dev/null 2>&1 || { echo "cannot add worktree"; exit 2; }
( cd "$WT" && git apply ${APPLY_OPTS:-} "$PATCH" ) || { echo "patch does not apply"; git -C /repo worktree remove --force "$WT"; exit 2; }
TIER=${TIER:-quick}
echo $CHECKS | tr ' ' '\n' | xargs -P ${JOBS:-6} -I{} sh -c "timeout ${TMO:-900} /verif/check {} --tier $TIER --no-evidence --repo $WT > $OUT/{}.log 2>&1; echo \"{} rc=\$? viol=\$(grep -c '^VIOLATION' $OUT/{}.log)\""  | sort
git -C /repo worktree remove --force "$WT"
grep -h -E '^(VIOLATION|  *key|.*\bkey=)' $OUT/*.log 2>/dev/null | cut -c1-260 | head -${SHOW:-40}
