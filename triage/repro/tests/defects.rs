use ebml_iterable::specs::{easy_ebml, Master, TagDataType};
use ebml_iterable::tools::{self, SignedVint, Vint};
use ebml_iterable::{TagIterator, TagWriter, WriteOptions};
use std::io::Cursor;

easy_ebml! {
    #[derive(Clone, PartialEq, Debug)]
    pub enum S {
        Root: Master = 0x1a45dfa3,
        Root/Count: UnsignedInt = 0x4286,
        Root/Int: Integer = 0x4287,
        Root/Name: Utf8 = 0x4288,
        Root/Bin: Binary = 0x4289,
        Root/Child: Master = 0x428a,
        Root/Child/Leaf: UnsignedInt = 0x428b,
        Root/Child/Sub: Master = 0x428c,
        Root/Child/Sub/Deep: UnsignedInt = 0x428d,
    }
}

#[test]
fn f1_arr_to_i64_empty() {
    assert_eq!(tools::arr_to_i64(&[]).unwrap(), 0);
}

#[test]
fn f2_signed_vint_len8() {
    for v in [0i64, 1, -1, 12345678901234, -12345678901234, (1 << 55) - 1, -(1 << 55) + 1] {
        let enc = v.as_signed_vint_with_length(8).unwrap();
        assert_eq!(enc.len(), 8);
        let (d, l) = tools::read_signed_vint(&enc).unwrap().unwrap();
        assert_eq!((d, l), (v, 8));
    }
}

#[test]
fn f3_is_vint() {
    assert!(!tools::is_vint(1));
    assert!(!tools::is_vint(1 << 63));
    assert!(!tools::is_vint(u64::MAX));
    assert!(tools::is_vint(0x80));
    assert!(tools::is_vint(0xFF));
    assert!(tools::is_vint(0x4286));
    assert!(tools::is_vint(0x1a45dfa3));
    assert!(tools::is_vint(0x01ffffffffffffff));
    assert!(!tools::is_vint(0x02ffffffffffffff));
    assert!(!tools::is_vint(0x7f));
    assert!(!tools::is_vint(0x100));
}

fn doc() -> Vec<u8> {
    let mut w = TagWriter::new(Cursor::new(Vec::new()));
    w.write(&S::Root(Master::Start)).unwrap();
    w.write(&S::Count(1)).unwrap();
    w.write(&S::Child(Master::Start)).unwrap();
    w.write(&S::Leaf(7)).unwrap();
    w.write(&S::Child(Master::End)).unwrap();
    w.write(&S::Root(Master::End)).unwrap();
    w.into_inner().unwrap().into_inner()
}

#[test]
fn f4_full_offset() {
    let bytes = doc();
    // flat
    let mut it: TagIterator<_, S> = TagIterator::new(Cursor::new(bytes.clone()), &[]);
    let mut child_start = None;
    while let Some(t) = it.next() {
        if let S::Child(Master::Start) = t.unwrap() { child_start = Some(it.last_emitted_tag_offset()); }
    }
    let mut it: TagIterator<_, S> = TagIterator::new(Cursor::new(bytes), &[S::Child(Master::Start)]);
    let mut full = None;
    while let Some(t) = it.next() {
        if let S::Child(Master::Full(_)) = t.unwrap() { full = Some(it.last_emitted_tag_offset()); }
    }
    assert_eq!(child_start, full);
}

#[test]
fn f5_implied_ancestors_end() {
    // only a Deep element, then EOF
    let mut w = TagWriter::new(Cursor::new(Vec::new()));
    w.write_raw(0x428d, &[5]).unwrap();
    let bytes = w.into_inner().unwrap().into_inner();
    let it: TagIterator<_, S> = TagIterator::new(Cursor::new(bytes), &[]);
    let tags: Vec<S> = it.map(|t| t.unwrap()).collect();
    assert_eq!(tags, vec![S::Deep(5), S::Sub(Master::End), S::Child(Master::End), S::Root(Master::End)]);
}

#[test]
fn f6_unknown_size_validated() {
    let mut w = TagWriter::new(Cursor::new(Vec::new()));
    // Child at root level is not allowed
    assert!(w.write_advanced(&S::Child(Master::Start), WriteOptions::is_unknown_sized_element()).is_err());
    #[allow(deprecated)]
    { assert!(w.write_unknown_size(&S::Child(Master::Start)).is_err()); }
}

#[test]
fn f7_failed_explicit_width_leaves_no_trace() {
    let mut w = TagWriter::new(Cursor::new(Vec::new()));
    w.write(&S::Root(Master::Start)).unwrap();
    let big = "x".repeat(200);
    assert!(w.write_advanced(&S::Name(big.clone()), WriteOptions::set_size_byte_count(1)).is_err());
    assert!(w.write_advanced(&S::Bin(vec![0; 200]), WriteOptions::set_size_byte_count(1)).is_err());
    w.write(&S::Count(1)).unwrap();
    w.write(&S::Root(Master::End)).unwrap();
    let got = w.into_inner().unwrap().into_inner();
    let mut w = TagWriter::new(Cursor::new(Vec::new()));
    w.write(&S::Root(Master::Start)).unwrap();
    w.write(&S::Count(1)).unwrap();
    w.write(&S::Root(Master::End)).unwrap();
    assert_eq!(got, w.into_inner().unwrap().into_inner());
}

#[test]
fn f8_mismatched_end_keeps_master_open() {
    let mut w = TagWriter::new(Cursor::new(Vec::new()));
    w.write(&S::Root(Master::Start)).unwrap();
    w.write(&S::Child(Master::Start)).unwrap();
    assert!(w.write(&S::Root(Master::End)).is_err());
    w.write(&S::Leaf(7)).unwrap();
    w.write(&S::Child(Master::End)).unwrap();
    w.write(&S::Root(Master::End)).unwrap();
    let got = w.into_inner().unwrap().into_inner();
    let mut w = TagWriter::new(Cursor::new(Vec::new()));
    w.write(&S::Root(Master::Start)).unwrap();
    w.write(&S::Child(Master::Start)).unwrap();
    w.write(&S::Leaf(7)).unwrap();
    w.write(&S::Child(Master::End)).unwrap();
    w.write(&S::Root(Master::End)).unwrap();
    assert_eq!(got, w.into_inner().unwrap().into_inner());
}

#[test]
fn f8b_end_width_overflow_keeps_master_open() {
    let mut w = TagWriter::new(Cursor::new(Vec::new()));
    w.write(&S::Root(Master::Start)).unwrap();
    w.write_advanced(&S::Child(Master::Start), WriteOptions::set_size_byte_count(1)).unwrap();
    w.write(&S::Sub(Master::Start)).unwrap();
    for _ in 0..60 { w.write(&S::Deep(7)).unwrap(); }
    w.write(&S::Sub(Master::End)).unwrap();
    // 1-byte size cannot hold > 126
    assert!(w.write(&S::Child(Master::End)).is_err());
    // the master must still be open: flush() will try again and fail again rather than silently dropping it
    assert!(w.write(&S::Root(Master::End)).is_err());
}

#[test]
fn f9_failed_full_leaves_no_trace() {
    let mut w = TagWriter::new(Cursor::new(Vec::new()));
    w.write(&S::Root(Master::Start)).unwrap();
    // Deep is not allowed directly under Child
    assert!(w.write(&S::Child(Master::Full(vec![S::Leaf(1), S::Deep(2)]))).is_err());
    w.write(&S::Count(1)).unwrap();
    w.write(&S::Root(Master::End)).unwrap();
    let got = w.into_inner().unwrap().into_inner();
    let mut w = TagWriter::new(Cursor::new(Vec::new()));
    w.write(&S::Root(Master::Start)).unwrap();
    w.write(&S::Count(1)).unwrap();
    w.write(&S::Root(Master::End)).unwrap();
    assert_eq!(got, w.into_inner().unwrap().into_inner());
}

#[test]
fn f11_reserved_size() {
    for n in [126usize, 127, 128, 16382, 16383, 16384] {
        let mut w = TagWriter::new(Cursor::new(Vec::new()));
        w.write(&S::Root(Master::Start)).unwrap();
        w.write(&S::Bin(vec![0xAA; n])).unwrap();
        w.write(&S::Root(Master::End)).unwrap();
        let bytes = w.into_inner().unwrap().into_inner();
        let it: TagIterator<_, S> = TagIterator::new(Cursor::new(bytes), &[]);
        let mut tags = vec![];
        for t in it { let e = t.is_err(); tags.push(t); if e { break; } }
        assert!(tags.iter().all(|t| t.is_ok()), "n={} {:?}", n, tags.iter().find(|t| t.is_err()));
        assert_eq!(tags.len(), 3);
    }
    let _ = 127u64.as_vint();
}

#[test]
fn f12_trailing_empty_element() {
    let mut w = TagWriter::new(Cursor::new(Vec::new()));
    w.write(&S::Root(Master::Start)).unwrap();
    w.write(&S::Root(Master::End)).unwrap();
    w.write(&S::Root(Master::Start)).unwrap();
    w.write(&S::Name(String::new())).unwrap();
    w.write(&S::Root(Master::End)).unwrap();
    let bytes = w.into_inner().unwrap().into_inner();
    let it: TagIterator<_, S> = TagIterator::new(Cursor::new(bytes), &[]);
    let mut tags = vec![];
    for t in it { let e = t.is_err(); tags.push(t); if e { break; } }
    assert!(tags.iter().all(|t| t.is_ok()), "{:?}", tags);
}
