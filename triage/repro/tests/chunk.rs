use ebml_iterable::specs::{easy_ebml, Master, TagDataType};
use ebml_iterable::{TagIterator, TagWriter, WriteOptions};
use ebml_iterable::error::TagIteratorError;
use std::io::{Cursor, Read};

easy_ebml! {
    #[derive(Clone, PartialEq, Debug)]
    pub enum S {
        Root: Master = 0x1a45dfa3,
        Root/Count: UnsignedInt = 0x4286,
        Root/Int: Integer = 0x4287,
        Root/Name: Utf8 = 0x4288,
        Root/Bin: Binary = 0x4289,
        Root/Child: Master = 0x428a,
        Root/Child/Leaf: UnsignedInt = 0x428b,
        Root/Child/Sub: Master = 0x428c,
        Root/Child/Sub/Deep: UnsignedInt = 0x83,
    }
}

struct Chunked { data: Vec<u8>, pos: usize, chunk: usize }
impl Read for Chunked {
    fn read(&mut self, buf: &mut [u8]) -> std::io::Result<usize> {
        let n = self.chunk.min(buf.len()).min(self.data.len() - self.pos);
        buf[..n].copy_from_slice(&self.data[self.pos..self.pos + n]);
        self.pos += n;
        Ok(n)
    }
}

fn doc() -> Vec<u8> {
    let mut w = TagWriter::new(Cursor::new(Vec::new()));
    w.write(&S::Root(Master::Start)).unwrap();
    w.write(&S::Count(1)).unwrap();
    w.write(&S::Int(-300)).unwrap();
    w.write_advanced(&S::Child(Master::Start), WriteOptions::is_unknown_sized_element()).unwrap();
    w.write(&S::Leaf(70000)).unwrap();
    w.write(&S::Sub(Master::Start)).unwrap();
    w.write(&S::Deep(5)).unwrap();
    w.write(&S::Sub(Master::End)).unwrap();
    w.write(&S::Child(Master::End)).unwrap();
    w.write(&S::Name("hello world, this is a longer string".into())).unwrap();
    w.write(&S::Bin(vec![7; 40])).unwrap();
    w.write(&S::Name(String::new())).unwrap();
    w.write(&S::Root(Master::End)).unwrap();
    w.into_inner().unwrap().into_inner()
}

fn run<R: Read>(r: R, cap: Option<usize>) -> Vec<(String, usize)> {
    let mut it: TagIterator<R, S> = match cap { Some(c) => TagIterator::with_capacity(r, &[], c), None => TagIterator::new(r, &[]) };
    let mut out = vec![];
    for _ in 0..1000 {
        match it.next() {
            None => break,
            Some(Ok(t)) => out.push((format!("{:?}", t), it.last_emitted_tag_offset())),
            Some(Err(e)) => { out.push((format!("ERR {:?}", e), 0)); break; }
        }
    }
    out
}

#[test]
fn chunk_independence() {
    let d = doc();
    let reference = run(Cursor::new(d.clone()), None);
    assert!(reference.iter().all(|(s, _)| !s.starts_with("ERR")), "{:?}", reference);
    for chunk in 1..=20 {
        for cap in 0..=40 {
            let got = run(Chunked { data: d.clone(), pos: 0, chunk }, Some(cap));
            assert_eq!(got, reference, "chunk {} cap {}", chunk, cap);
        }
    }
}

#[test]
fn truncation() {
    let d = doc();
    for cut in 0..d.len() {
        let reference = run(Cursor::new(d[..cut].to_vec()), None);
        for (chunk, cap) in [(1, 0), (3, 5), (7, 16), (1000, 10)] {
            let got = run(Chunked { data: d[..cut].to_vec(), pos: 0, chunk }, Some(cap));
            assert_eq!(got, reference, "cut {} chunk {} cap {}", cut, chunk, cap);
        }
        if let Some((s, _)) = reference.last() {
            assert!(!s.contains("Corrupted"), "cut {}: {}", cut, s);
        }
    }
}
