// Genuine defect recorded as a known finding (found by R-MATCHER-TABLE, class 'placeholder-matches-named-id'; independently noted by a
// sub-agent writing seeded change C11-m5): validate_tag_path ends a global placeholder at the FIRST open master that carries the id of
// the named parent following the placeholder.  When a master matched by the placeholder has that same id (a recursive element declared
// through a placeholder), the chain is rejected although it matches the declared path read as a pattern.
// Both tests FAIL on repo HEAD 17cb233 (writer: UnexpectedTag; strict reader: HierarchyError).
use ebml_iterable::specs::{ebml_specification, Master, TagDataType};
use ebml_iterable::{TagIterator, TagWriter};

#[ebml_specification]
#[derive(Clone, Debug, PartialEq)]
enum S {
    #[id(0x18538067)] #[data_type(TagDataType::Master)] Root,
    // a master that may appear at any depth below Root, including inside another Group
    #[id(0x4005)] #[data_type(TagDataType::Master)] #[doc_path(Root/(-))] Group,
    #[id(0x4006)] #[data_type(TagDataType::UnsignedInt)] #[doc_path(Root/(-)/Group)] Deep,
}

#[test]
fn writer_accepts_element_below_nested_groups() {
    let mut w = TagWriter::new(Vec::new());
    w.write(&S::Root(Master::Start)).unwrap();
    w.write(&S::Group(Master::Start)).unwrap();
    w.write(&S::Deep(1)).expect("Deep under Root/Group is accepted (control)");
    w.write(&S::Group(Master::Start)).expect("Group under Root/Group matches Root/(-)");
    // declared Root/(-)/Group, open chain Root/Group/Group: the placeholder matches the outer Group
    assert!(w.write(&S::Deep(2)).is_ok(), "Deep under Root/Group/Group rejected");
}

#[test]
fn strict_reader_accepts_element_below_nested_groups() {
    // Root{ Group{ Group{ Deep(2) } } }, all sizes known
    let bytes: Vec<u8> = vec![
        0x18, 0x53, 0x80, 0x67, 0x8A,       // Root, size 10
        0x40, 0x05, 0x87,                   // Group, size 7
        0x40, 0x05, 0x84,                   // Group, size 4
        0x40, 0x06, 0x81, 0x02,             // Deep = 2
    ];
    // stop at the first error (the iterator keeps reporting an error it cannot get past)
    let mut items = Vec::new();
    for r in TagIterator::<_, S>::new(&bytes[..], &[]) {
        let stop = r.is_err();
        items.push(r);
        if stop { break; }
    }
    assert!(items.iter().all(|r| r.is_ok()), "strict reader reports {:?}", items.iter().find(|r| r.is_err()));
    assert_eq!(items.len(), 7);
}
