// Defect repaired by repo commit 17cb233 (found by R-MATCHER-TABLE): validate_tag_path counted the named parent that ends an
// intermediate global placeholder against the placeholder's bounds.  The first test failed on b76f538 and passes on 17cb233.
use ebml_iterable::specs::{ebml_specification, Master, TagDataType};
use ebml_iterable::TagWriter;

#[ebml_specification]
#[derive(Clone, Debug, PartialEq)]
enum S {
    #[id(0x18538067)] #[data_type(TagDataType::Master)] Seg,
    #[id(0x1f43b675)] #[data_type(TagDataType::Master)] #[doc_path(Seg)] Cluster,
    #[id(0x4005)] #[data_type(TagDataType::Master)] #[doc_path(Seg/(0-1))] Loose,
    #[id(0x4006)] #[data_type(TagDataType::UnsignedInt)] #[doc_path(Seg/(0-1)/Loose)] Item,
    #[id(0x4015)] #[data_type(TagDataType::Master)] #[doc_path(Seg/(1-))] Deep,
}

#[test]
fn intermediate_placeholder_matches_one_master() {
    let mut w = TagWriter::new(Vec::new());
    w.write(&S::Seg(Master::Start)).unwrap();
    w.write(&S::Cluster(Master::Start)).unwrap();
    w.write(&S::Loose(Master::Start)).unwrap();
    // declared Seg/(0-1)/Loose, open chain Seg/Cluster/Loose: the placeholder matches Cluster
    assert!(w.write(&S::Item(1)).is_ok(), "Item under Seg/Cluster/Loose rejected");
}

#[test]
fn trailing_placeholder_minimum_is_enforced() {
    let mut w = TagWriter::new(Vec::new());
    w.write(&S::Seg(Master::Start)).unwrap();
    assert!(w.write(&S::Deep(Master::Start)).is_err(), "Deep directly under Seg accepted");
}
