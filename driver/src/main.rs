//! mir2json — rustc_private driver that dumps the type-checked MIR of the
//! ebml-iterable crates as JSON ("μMIR") for the Python analyses in /verif/verif.
//!
//! Used as RUSTC_WRAPPER under `cargo +nightly check`.  For every local crate
//! whose name starts with `ebml_iterable` (or with $MIR2JSON_CRATE_PREFIX) it
//! writes ONE file `$MIR2JSON_OUT/<crate>.json` (a single write per process).
#![feature(rustc_private)]
#![allow(clippy::all)]

extern crate rustc_abi;
extern crate rustc_driver;
extern crate rustc_hir;
extern crate rustc_interface;
extern crate rustc_middle;
extern crate rustc_session;
extern crate rustc_span;

use rustc_driver::Compilation;
use rustc_hir::def::DefKind;
use rustc_hir::def_id::{DefId, LOCAL_CRATE};
use rustc_middle::mir::{
    self, AggregateKind, BasicBlockData, Body, BorrowKind, CastKind, Const, Operand, Place,
    ProjectionElem, Rvalue, StatementKind, TerminatorKind,
};
use rustc_middle::ty::{self, GenericArgKind, Instance, Ty, TyCtxt, TypingEnv};
use rustc_span::Span;
use std::fmt::Write as _;

// ---------------------------------------------------------------------------
// tiny JSON writer
// ---------------------------------------------------------------------------
fn esc(s: &str) -> String {
    let mut o = String::with_capacity(s.len() + 2);
    o.push('"');
    for c in s.chars() {
        match c {
            '"' => o.push_str("\\\""),
            '\\' => o.push_str("\\\\"),
            '\n' => o.push_str("\\n"),
            '\r' => o.push_str("\\r"),
            '\t' => o.push_str("\\t"),
            c if (c as u32) < 0x20 => {
                let _ = write!(o, "\\u{:04x}", c as u32);
            }
            c => o.push(c),
        }
    }
    o.push('"');
    o
}
fn arr(items: Vec<String>) -> String {
    format!("[{}]", items.join(","))
}
fn obj(items: Vec<(&str, String)>) -> String {
    let v: Vec<String> = items.into_iter().map(|(k, v)| format!("{}:{}", esc(k), v)).collect();
    format!("{{{}}}", v.join(","))
}
fn jbool(b: bool) -> String {
    if b { "true".into() } else { "false".into() }
}
fn jnull() -> String {
    "null".into()
}

struct Cx<'tcx> {
    tcx: TyCtxt<'tcx>,
}

impl<'tcx> Cx<'tcx> {
    fn span(&self, sp: Span) -> String {
        let sm = self.tcx.sess.source_map();
        let lo = sm.lookup_char_pos(sp.lo());
        let hi = sm.lookup_char_pos(sp.hi());
        let file = format!("{}", lo.file.name.prefer_local_unconditionally());
        obj(vec![
            ("file", esc(&file)),
            ("line", format!("{}", lo.line)),
            ("col", format!("{}", lo.col.0 + 1)),
            ("eline", format!("{}", hi.line)),
            ("ecol", format!("{}", hi.col.0 + 1)),
            ("exp", jbool(sp.from_expansion())),
        ])
    }

    fn path(&self, did: DefId) -> String {
        self.tcx.def_path_str(did)
    }
    fn krate(&self, did: DefId) -> String {
        self.tcx.crate_name(did.krate).to_string()
    }

    fn generic_args(&self, args: ty::GenericArgsRef<'tcx>, env: TypingEnv<'tcx>) -> String {
        arr(args
            .iter()
            .map(|a| match a.kind() {
                GenericArgKind::Type(t) => self.ty(t, env),
                GenericArgKind::Const(c) => self.ty_const(c, env),
                GenericArgKind::Lifetime(_) => obj(vec![("k", esc("lifetime"))]),
            })
            .collect())
    }

    fn ty_const(&self, c: ty::Const<'tcx>, env: TypingEnv<'tcx>) -> String {
        let s = format!("{:?}", c);
        match c.kind() {
            ty::ConstKind::Param(p) => obj(vec![("k", esc("cparam")), ("name", esc(p.name.as_str())), ("s", esc(&s))]),
            _ => {
                if let Some(v) = c.try_to_target_usize(self.tcx) {
                    obj(vec![("k", esc("cval")), ("v", format!("{}", v)), ("s", esc(&s))])
                } else {
                    let _ = env;
                    obj(vec![("k", esc("cother")), ("s", esc(&s))])
                }
            }
        }
    }

    fn ty(&self, t: Ty<'tcx>, env: TypingEnv<'tcx>) -> String {
        let s = format!("{:?}", t);
        let mut f: Vec<(&str, String)> = vec![];
        match t.kind() {
            ty::Bool => f.push(("k", esc("bool"))),
            ty::Char => f.push(("k", esc("char"))),
            ty::Int(i) => {
                f.push(("k", esc("int")));
                f.push(("bits", format!("{}", i.bit_width().unwrap_or(64))));
                f.push(("size", jbool(i.bit_width().is_none())));
            }
            ty::Uint(u) => {
                f.push(("k", esc("uint")));
                f.push(("bits", format!("{}", u.bit_width().unwrap_or(64))));
                f.push(("size", jbool(u.bit_width().is_none())));
            }
            ty::Float(fl) => {
                f.push(("k", esc("float")));
                f.push(("bits", format!("{}", fl.bit_width())));
            }
            ty::Str => f.push(("k", esc("str"))),
            ty::Never => f.push(("k", esc("never"))),
            ty::Ref(_, inner, m) => {
                f.push(("k", esc("ref")));
                f.push(("mut", jbool(m.is_mut())));
                f.push(("to", self.ty(*inner, env)));
            }
            ty::RawPtr(inner, m) => {
                f.push(("k", esc("ptr")));
                f.push(("mut", jbool(m.is_mut())));
                f.push(("to", self.ty(*inner, env)));
            }
            ty::Slice(inner) => {
                f.push(("k", esc("slice")));
                f.push(("of", self.ty(*inner, env)));
            }
            ty::Array(inner, len) => {
                f.push(("k", esc("array")));
                f.push(("of", self.ty(*inner, env)));
                f.push(("len", self.ty_const(*len, env)));
            }
            ty::Tuple(ts) => {
                f.push(("k", esc("tuple")));
                f.push(("of", arr(ts.iter().map(|x| self.ty(x, env)).collect())));
            }
            ty::Adt(def, args) => {
                f.push(("k", esc("adt")));
                f.push(("path", esc(&self.path(def.did()))));
                f.push(("crate", esc(&self.krate(def.did()))));
                f.push(("args", self.generic_args(args, env)));
            }
            ty::Closure(did, _) => {
                f.push(("k", esc("closure")));
                f.push(("def", esc(&self.path(*did))));
            }
            ty::FnDef(did, args) => {
                f.push(("k", esc("fndef")));
                f.push(("path", esc(&self.path(*did))));
                f.push(("args", self.generic_args(args, env)));
            }
            ty::Param(p) => {
                f.push(("k", esc("param")));
                f.push(("name", esc(p.name.as_str())));
            }
            ty::FnPtr(..) => f.push(("k", esc("fnptr"))),
            ty::Dynamic(..) => f.push(("k", esc("dyn"))),
            ty::Alias(..) => f.push(("k", esc("alias"))),
            _ => f.push(("k", esc("other"))),
        }
        f.push(("s", esc(&s)));
        obj(f)
    }

    fn field_name(&self, base_ty: Ty<'tcx>, variant: Option<rustc_abi::VariantIdx>, idx: usize) -> Option<String> {
        match base_ty.kind() {
            ty::Adt(def, _) => {
                let v = if def.is_enum() {
                    def.variant(variant?)
                } else {
                    def.non_enum_variant()
                };
                v.fields.iter().nth(idx).map(|fd| fd.name.to_string())
            }
            ty::Closure(did, _) => {
                let caps = self.tcx.closure_captures(did.expect_local());
                caps.get(idx).map(|c| c.to_string(self.tcx))
            }
            _ => None,
        }
    }

    fn place(&self, body: &Body<'tcx>, p: &Place<'tcx>, env: TypingEnv<'tcx>) -> String {
        let mut pty = mir::PlaceTy::from_ty(body.local_decls[p.local].ty);
        let mut projs = vec![];
        for elem in p.projection.iter() {
            let j = match elem {
                ProjectionElem::Deref => obj(vec![("k", esc("deref"))]),
                ProjectionElem::Field(fi, fty) => {
                    let name = self.field_name(pty.ty, pty.variant_index, fi.as_usize());
                    obj(vec![
                        ("k", esc("field")),
                        ("i", format!("{}", fi.as_usize())),
                        ("name", name.map(|n| esc(&n)).unwrap_or_else(jnull)),
                        ("ty", self.ty(fty, env)),
                    ])
                }
                ProjectionElem::Index(l) => obj(vec![("k", esc("index")), ("local", format!("{}", l.as_usize()))]),
                ProjectionElem::ConstantIndex { offset, min_length, from_end } => obj(vec![
                    ("k", esc("cindex")),
                    ("offset", format!("{}", offset)),
                    ("min_length", format!("{}", min_length)),
                    ("from_end", jbool(from_end)),
                ]),
                ProjectionElem::Subslice { from, to, from_end } => obj(vec![
                    ("k", esc("subslice")),
                    ("from", format!("{}", from)),
                    ("to", format!("{}", to)),
                    ("from_end", jbool(from_end)),
                ]),
                ProjectionElem::Downcast(name, vi) => {
                    let vname = match pty.ty.kind() {
                        ty::Adt(def, _) if def.is_enum() => Some(def.variant(vi).name.to_string()),
                        _ => name.map(|s| s.to_string()),
                    };
                    obj(vec![
                        ("k", esc("downcast")),
                        ("i", format!("{}", vi.as_usize())),
                        ("variant", vname.map(|n| esc(&n)).unwrap_or_else(jnull)),
                    ])
                }
                ProjectionElem::OpaqueCast(_) => obj(vec![("k", esc("opaquecast"))]),
                ProjectionElem::UnwrapUnsafeBinder(_) => obj(vec![("k", esc("unwrapbinder"))]),
            };
            projs.push(j);
            pty = pty.projection_ty(self.tcx, elem);
        }
        obj(vec![
            ("local", format!("{}", p.local.as_usize())),
            ("proj", arr(projs)),
            ("ty", self.ty(pty.ty, env)),
        ])
    }

    fn scalar(&self, c: &Const<'tcx>, env: TypingEnv<'tcx>) -> Option<String> {
        let ty = c.ty();
        let si = c.try_eval_scalar_int(self.tcx, env)?;
        let size = si.size();
        let bits = si.to_bits(size);
        match ty.kind() {
            ty::Int(_) => {
                let v = size.sign_extend(bits) as i128;
                Some(format!("{}", v))
            }
            ty::Uint(_) | ty::Bool | ty::Char => Some(format!("{}", bits)),
            _ => None,
        }
    }

    fn constant(&self, c: &Const<'tcx>, env: TypingEnv<'tcx>, sp: Span) -> String {
        let ty = c.ty();
        let mut f: Vec<(&str, String)> = vec![("k", esc("const")), ("ty", self.ty(ty, env)), ("s", esc(&format!("{}", c)))];
        if let ty::FnDef(did, args) = ty.kind() {
            f.push(("fn", self.callee(*did, args, env)));
        }
        match c {
            Const::Ty(_, ct) => {
                if let ty::ConstKind::Param(p) = ct.kind() {
                    f.push(("cparam", esc(p.name.as_str())));
                }
            }
            Const::Unevaluated(uv, _) => {
                f.push(("def", esc(&self.path(uv.def))));
                if let Some(p) = uv.promoted {
                    f.push(("promoted", format!("{}", p.as_usize())));
                }
            }
            Const::Val(..) => {}
        }
        // Evaluate only closed scalar constants; generic ones would ICE / fail.
        let closed = !matches!(c, Const::Ty(_, ct) if matches!(ct.kind(), ty::ConstKind::Param(_)))
            && !matches!(c, Const::Unevaluated(uv, _) if uv.promoted.is_some());
        if closed && (ty.is_integral() || ty.is_bool() || ty.is_char()) {
            if let Some(v) = self.scalar(c, env) {
                f.push(("v", v));
            }
        }
        if ty.is_floating_point() {
            if let Some(si) = c.try_eval_scalar_int(self.tcx, env) {
                f.push(("fbits", format!("{}", si.to_bits(si.size()))));
            }
        }
        let _ = sp;
        obj(f)
    }

    fn operand(&self, body: &Body<'tcx>, o: &Operand<'tcx>, env: TypingEnv<'tcx>) -> String {
        match o {
            Operand::Copy(p) => obj(vec![("k", esc("copy")), ("place", self.place(body, p, env))]),
            Operand::Move(p) => obj(vec![("k", esc("move")), ("place", self.place(body, p, env))]),
            Operand::Constant(c) => self.constant(&c.const_, env, c.span),
            Operand::RuntimeChecks(rc) => obj(vec![("k", esc("runtime_checks")), ("s", esc(&format!("{:?}", rc)))]),
        }
    }

    fn callee(&self, did: DefId, args: ty::GenericArgsRef<'tcx>, env: TypingEnv<'tcx>) -> String {
        let tcx = self.tcx;
        let mut f: Vec<(&str, String)> = vec![
            ("path", esc(&self.path(did))),
            ("crate", esc(&self.krate(did))),
            ("name", esc(tcx.item_name(did).as_str())),
            ("args", self.generic_args(args, env)),
            ("full", esc(&tcx.def_path_str_with_args(did, args))),
            ("local", jbool(did.is_local())),
        ];
        if let Some(tr) = tcx.trait_of_assoc(did) {
            f.push(("trait", esc(&self.path(tr))));
        }
        if let Some(imp) = tcx.impl_of_assoc(did) {
            let self_ty = tcx.type_of(imp).instantiate_identity().skip_norm_wip();
            f.push(("impl_self", self.ty(self_ty, env)));
            if let Some(tr) = tcx.impl_opt_trait_ref(imp) {
                f.push(("impl_trait", esc(&self.path(tr.skip_binder().def_id))));
            }
        }
        // resolution of trait calls
        if tcx.trait_of_assoc(did).is_some() {
            let r = std::panic::catch_unwind(std::panic::AssertUnwindSafe(|| Instance::try_resolve(tcx, env, did, args)));
            if let Ok(Ok(Some(inst))) = r {
                let rd = inst.def_id();
                if rd != did {
                    let mut g: Vec<(&str, String)> = vec![
                        ("path", esc(&self.path(rd))),
                        ("crate", esc(&self.krate(rd))),
                        ("local", jbool(rd.is_local())),
                        ("full", esc(&format!("{}", inst))),
                    ];
                    if let Some(imp) = tcx.impl_of_assoc(rd) {
                        let self_ty = tcx.type_of(imp).instantiate_identity().skip_norm_wip();
                        g.push(("impl_self", self.ty(self_ty, env)));
                    }
                    f.push(("resolved", obj(g)));
                }
            }
        }
        obj(f)
    }

    fn rvalue(&self, body: &Body<'tcx>, rv: &Rvalue<'tcx>, env: TypingEnv<'tcx>) -> String {
        match rv {
            Rvalue::Use(o, ..) => obj(vec![("k", esc("use")), ("op", self.operand(body, o, env))]),
            Rvalue::Repeat(o, n) => obj(vec![("k", esc("repeat")), ("op", self.operand(body, o, env)), ("count", self.ty_const(*n, env))]),
            Rvalue::Ref(_, bk, p) => obj(vec![
                ("k", esc("ref")),
                ("mut", jbool(matches!(bk, BorrowKind::Mut { .. }))),
                ("bk", esc(&format!("{:?}", bk))),
                ("place", self.place(body, p, env)),
            ]),
            Rvalue::RawPtr(k, p) => obj(vec![("k", esc("rawptr")), ("kind", esc(&format!("{:?}", k))), ("place", self.place(body, p, env))]),
            Rvalue::ThreadLocalRef(_) => obj(vec![("k", esc("tlsref"))]),
            Rvalue::Cast(ck, o, t) => {
                let kind = match ck {
                    CastKind::IntToInt => "IntToInt".to_string(),
                    CastKind::FloatToInt => "FloatToInt".to_string(),
                    CastKind::FloatToFloat => "FloatToFloat".to_string(),
                    CastKind::IntToFloat => "IntToFloat".to_string(),
                    CastKind::PtrToPtr => "PtrToPtr".to_string(),
                    CastKind::Transmute => "Transmute".to_string(),
                    CastKind::PointerCoercion(pc, _) => format!("PointerCoercion({:?})", pc),
                    other => format!("{:?}", other),
                };
                obj(vec![("k", esc("cast")), ("kind", esc(&kind)), ("op", self.operand(body, o, env)), ("ty", self.ty(*t, env))])
            }
            Rvalue::BinaryOp(op, ab) => obj(vec![
                ("k", esc("binop")),
                ("op", esc(&format!("{:?}", op))),
                ("a", self.operand(body, &ab.0, env)),
                ("b", self.operand(body, &ab.1, env)),
            ]),
            Rvalue::UnaryOp(op, a) => obj(vec![("k", esc("unop")), ("op", esc(&format!("{:?}", op))), ("a", self.operand(body, a, env))]),
            Rvalue::Discriminant(p) => obj(vec![("k", esc("discr")), ("place", self.place(body, p, env))]),
            Rvalue::Aggregate(kind, ops) => {
                let opsj = arr(ops.iter().map(|o| self.operand(body, o, env)).collect());
                match &**kind {
                    AggregateKind::Array(t) => obj(vec![("k", esc("agg")), ("agg", esc("array")), ("elem_ty", self.ty(*t, env)), ("ops", opsj)]),
                    AggregateKind::Tuple => obj(vec![("k", esc("agg")), ("agg", esc("tuple")), ("ops", opsj)]),
                    AggregateKind::Adt(did, vi, args, _, active) => {
                        let def = self.tcx.adt_def(*did);
                        let v = def.variant(*vi);
                        obj(vec![
                            ("k", esc("agg")),
                            ("agg", esc("adt")),
                            ("path", esc(&self.path(*did))),
                            ("crate", esc(&self.krate(*did))),
                            ("is_enum", jbool(def.is_enum())),
                            ("variant_i", format!("{}", vi.as_usize())),
                            ("variant", esc(v.name.as_str())),
                            ("fields", arr(v.fields.iter().map(|fd| esc(fd.name.as_str())).collect())),
                            ("args", self.generic_args(args, env)),
                            ("active_field", active.map(|a| format!("{}", a.as_usize())).unwrap_or_else(jnull)),
                            ("ops", opsj),
                        ])
                    }
                    AggregateKind::Closure(did, _) => {
                        let caps = self.tcx.closure_captures(did.expect_local());
                        obj(vec![
                            ("k", esc("agg")),
                            ("agg", esc("closure")),
                            ("def", esc(&self.path(*did))),
                            ("captures", arr(caps.iter().map(|c| esc(&c.to_string(self.tcx))).collect())),
                            ("by_ref", arr(caps.iter().map(|c| jbool(c.is_by_ref())).collect())),
                            ("ops", opsj),
                        ])
                    }
                    AggregateKind::RawPtr(..) => obj(vec![("k", esc("agg")), ("agg", esc("rawptr")), ("ops", opsj)]),
                    _ => obj(vec![("k", esc("agg")), ("agg", esc("other")), ("ops", opsj)]),
                }
            }
            Rvalue::CopyForDeref(p) => obj(vec![("k", esc("use")), ("op", obj(vec![("k", esc("copy")), ("place", self.place(body, p, env))]))]),
            Rvalue::WrapUnsafeBinder(..) => obj(vec![("k", esc("other")), ("s", esc(&format!("{:?}", rv)))]),
        }
    }

    fn block(&self, body: &Body<'tcx>, bbd: &BasicBlockData<'tcx>, env: TypingEnv<'tcx>) -> String {
        let mut stmts = vec![];
        for st in &bbd.statements {
            let sp = self.span(st.source_info.span);
            let j = match &st.kind {
                StatementKind::Assign(b) => {
                    let (p, rv) = &**b;
                    Some(obj(vec![("k", esc("assign")), ("place", self.place(body, p, env)), ("rv", self.rvalue(body, rv, env)), ("span", sp)]))
                }
                StatementKind::SetDiscriminant { place, variant_index } => Some(obj(vec![
                    ("k", esc("setdiscr")),
                    ("place", self.place(body, place, env)),
                    ("variant_i", format!("{}", variant_index.as_usize())),
                    ("span", sp),
                ])),
                StatementKind::StorageLive(l) => Some(obj(vec![("k", esc("live")), ("local", format!("{}", l.as_usize()))])),
                StatementKind::StorageDead(l) => Some(obj(vec![("k", esc("dead")), ("local", format!("{}", l.as_usize()))])),
                StatementKind::Intrinsic(i) => Some(obj(vec![("k", esc("intrinsic")), ("s", esc(&format!("{:?}", i))), ("span", sp)])),
                StatementKind::Nop
                | StatementKind::ConstEvalCounter
                | StatementKind::Coverage(..)
                | StatementKind::FakeRead(..)
                | StatementKind::PlaceMention(..)
                | StatementKind::AscribeUserType(..) => None,
                other => Some(obj(vec![("k", esc("other")), ("s", esc(&format!("{:?}", other))), ("span", sp)])),
            };
            if let Some(j) = j {
                stmts.push(j);
            }
        }
        let term = bbd.terminator();
        let sp = self.span(term.source_info.span);
        let tj = match &term.kind {
            TerminatorKind::Goto { target } => obj(vec![("k", esc("goto")), ("target", format!("{}", target.as_usize())), ("span", sp)]),
            TerminatorKind::SwitchInt { discr, targets } => {
                let mut ts = vec![];
                for (v, bb) in targets.iter() {
                    ts.push(format!("[{},{}]", v, bb.as_usize()));
                }
                let dty = discr.ty(&body.local_decls, self.tcx);
                obj(vec![
                    ("k", esc("switch")),
                    ("discr", self.operand(body, discr, env)),
                    ("discr_ty", self.ty(dty, env)),
                    ("targets", arr(ts)),
                    ("otherwise", format!("{}", targets.otherwise().as_usize())),
                    ("span", sp),
                ])
            }
            TerminatorKind::Return => obj(vec![("k", esc("return")), ("span", sp)]),
            TerminatorKind::Unreachable => obj(vec![("k", esc("unreachable")), ("span", sp)]),
            TerminatorKind::Drop { place, target, .. } => obj(vec![
                ("k", esc("drop")),
                ("place", self.place(body, place, env)),
                ("target", format!("{}", target.as_usize())),
                ("span", sp),
            ]),
            TerminatorKind::Call { func, args, destination, target, fn_span, .. } => {
                let argsj = arr(args.iter().map(|a| self.operand(body, &a.node, env)).collect());
                obj(vec![
                    ("k", esc("call")),
                    ("func", self.operand(body, func, env)),
                    ("args", argsj),
                    ("dest", self.place(body, destination, env)),
                    ("target", target.map(|t| format!("{}", t.as_usize())).unwrap_or_else(jnull)),
                    ("fn_span", self.span(*fn_span)),
                    ("span", sp),
                ])
            }
            TerminatorKind::Assert { cond, expected, msg, target, .. } => {
                use mir::AssertKind::*;
                let (kind, ops): (String, Vec<String>) = match &**msg {
                    BoundsCheck { len, index } => ("BoundsCheck".into(), vec![self.operand(body, len, env), self.operand(body, index, env)]),
                    Overflow(op, a, b) => (format!("Overflow({:?})", op), vec![self.operand(body, a, env), self.operand(body, b, env)]),
                    OverflowNeg(a) => ("OverflowNeg".into(), vec![self.operand(body, a, env)]),
                    DivisionByZero(a) => ("DivisionByZero".into(), vec![self.operand(body, a, env)]),
                    RemainderByZero(a) => ("RemainderByZero".into(), vec![self.operand(body, a, env)]),
                    other => (format!("{:?}", other), vec![]),
                };
                obj(vec![
                    ("k", esc("assert")),
                    ("cond", self.operand(body, cond, env)),
                    ("expected", jbool(*expected)),
                    ("kind", esc(&kind)),
                    ("ops", arr(ops)),
                    ("target", format!("{}", target.as_usize())),
                    ("span", sp),
                ])
            }
            TerminatorKind::UnwindResume => obj(vec![("k", esc("resume")), ("span", sp)]),
            other => obj(vec![("k", esc("other")), ("s", esc(&format!("{:?}", other))), ("span", sp)]),
        };
        obj(vec![("stmts", arr(stmts)), ("term", tj), ("cleanup", jbool(bbd.is_cleanup))])
    }

    fn body(&self, did: DefId, body: &Body<'tcx>, promoted: Option<usize>) -> String {
        let tcx = self.tcx;
        let env = TypingEnv::post_analysis(tcx, did);
        let kind = tcx.def_kind(did);
        let kind_s = match (kind, promoted) {
            (_, Some(_)) => "promoted",
            (DefKind::Fn, _) => "fn",
            (DefKind::AssocFn, _) => "assoc_fn",
            (DefKind::Closure, _) => "closure",
            _ => "other",
        };
        let mut f: Vec<(&str, String)> = vec![
            ("def_path", esc(&self.path(did))),
            ("crate", esc(&self.krate(did))),
            ("kind", esc(kind_s)),
            ("span", self.span(body.span)),
            ("arg_count", format!("{}", body.arg_count)),
        ];
        if let Some(p) = promoted {
            f.push(("promoted_index", format!("{}", p)));
        }
        if matches!(kind, DefKind::Fn | DefKind::AssocFn) {
            f.push(("name", esc(tcx.item_name(did).as_str())));
            let vis = tcx.visibility(did);
            f.push(("vis", esc(if vis.is_public() { "pub" } else { "restricted" })));
            if let Some(imp) = tcx.impl_of_assoc(did) {
                let self_ty = tcx.type_of(imp).instantiate_identity().skip_norm_wip();
                f.push(("impl_self", self.ty(self_ty, env)));
                if let Some(tr) = tcx.impl_opt_trait_ref(imp) {
                    f.push(("impl_trait", esc(&self.path(tr.skip_binder().def_id))));
                }
            }
            if let Some(tr) = tcx.trait_of_assoc(did) {
                f.push(("trait", esc(&self.path(tr))));
            }
        }
        if kind == DefKind::Closure {
            let parent = tcx.typeck_root_def_id(did);
            f.push(("parent", esc(&self.path(parent))));
            f.push(("immediate_parent", esc(&self.path(tcx.parent(did)))));
        }
        // generics
        let generics = tcx.generics_of(tcx.typeck_root_def_id(did));
        let mut gnames = vec![];
        let mut g = Some(generics);
        let mut stack = vec![];
        while let Some(gg) = g {
            stack.push(gg);
            g = gg.parent.map(|p| tcx.generics_of(p));
        }
        for gg in stack.iter().rev() {
            for p in &gg.own_params {
                let k = match p.kind {
                    ty::GenericParamDefKind::Lifetime => "lifetime",
                    ty::GenericParamDefKind::Type { .. } => "type",
                    ty::GenericParamDefKind::Const { .. } => "const",
                };
                gnames.push(obj(vec![("name", esc(p.name.as_str())), ("kind", esc(k))]));
            }
        }
        f.push(("generics", arr(gnames)));

        // locals
        let mut names: Vec<Option<String>> = vec![None; body.local_decls.len()];
        let mut dbg = vec![];
        for vdi in &body.var_debug_info {
            if let mir::VarDebugInfoContents::Place(p) = &vdi.value {
                if p.projection.is_empty() && names[p.local.as_usize()].is_none() {
                    names[p.local.as_usize()] = Some(vdi.name.to_string());
                }
                dbg.push(obj(vec![("name", esc(vdi.name.as_str())), ("place", self.place(body, p, env))]));
            }
        }
        f.push(("debug", arr(dbg)));
        let mut locals = vec![];
        for (i, ld) in body.local_decls.iter_enumerated() {
            locals.push(obj(vec![
                ("ty", self.ty(ld.ty, env)),
                ("mut", jbool(ld.mutability.is_mut())),
                ("name", names[i.as_usize()].as_ref().map(|n| esc(n)).unwrap_or_else(jnull)),
                ("span", self.span(ld.source_info.span)),
            ]));
        }
        f.push(("locals", arr(locals)));
        let mut blocks = vec![];
        for (_bb, bbd) in body.basic_blocks.iter_enumerated() {
            blocks.push(self.block(body, bbd, env));
        }
        f.push(("blocks", arr(blocks)));
        obj(f)
    }
}

struct Cb;

impl rustc_driver::Callbacks for Cb {
    fn after_analysis<'tcx>(&mut self, _c: &rustc_interface::interface::Compiler, tcx: TyCtxt<'tcx>) -> Compilation {
        let out_dir = match std::env::var("MIR2JSON_OUT") {
            Ok(d) => d,
            Err(_) => return Compilation::Continue,
        };
        let prefix = std::env::var("MIR2JSON_CRATE_PREFIX").unwrap_or_else(|_| "ebml_iterable".to_string());
        let cname = tcx.crate_name(LOCAL_CRATE).to_string();
        if !prefix.split(',').any(|p| cname.starts_with(p)) {
            return Compilation::Continue;
        }
        let cx = Cx { tcx };
        let mut bodies = vec![];
        for ldid in tcx.hir_body_owners() {
            let did = ldid.to_def_id();
            let kind = tcx.def_kind(did);
            if !matches!(kind, DefKind::Fn | DefKind::AssocFn | DefKind::Closure) {
                continue;
            }
            if !tcx.is_mir_available(did) {
                continue;
            }
            let body = tcx.optimized_mir(did);
            bodies.push(cx.body(did, body, None));
            let promoted = tcx.promoted_mir(did);
            for (pi, pb) in promoted.iter_enumerated() {
                bodies.push(cx.body(did, pb, Some(pi.as_usize())));
            }
        }
        // ADTs and consts
        let mut adts = vec![];
        let mut consts = vec![];
        for id in tcx.hir_free_items() {
            let did = id.owner_id.to_def_id();
            match tcx.def_kind(did) {
                DefKind::Struct | DefKind::Enum => {
                    let def = tcx.adt_def(did);
                    let env = TypingEnv::post_analysis(tcx, did);
                    let mut vs = vec![];
                    for (vi, v) in def.variants().iter_enumerated() {
                        let discr = if def.is_enum() { format!("{}", def.discriminant_for_variant(tcx, vi).val) } else { "0".into() };
                        let fields: Vec<String> = v
                            .fields
                            .iter()
                            .map(|fd| {
                                let fty = tcx.type_of(fd.did).instantiate_identity().skip_norm_wip();
                                obj(vec![("name", esc(fd.name.as_str())), ("ty", cx.ty(fty, env)), ("pub", jbool(fd.vis.is_public()))])
                            })
                            .collect();
                        vs.push(obj(vec![("name", esc(v.name.as_str())), ("discr", discr), ("fields", arr(fields))]));
                    }
                    adts.push(obj(vec![
                        ("path", esc(&cx.path(did))),
                        ("is_enum", jbool(def.is_enum())),
                        ("variants", arr(vs)),
                        ("span", cx.span(tcx.def_span(did))),
                    ]));
                }
                DefKind::Const { .. } => {
                    let env = TypingEnv::post_analysis(tcx, did);
                    let ty = tcx.type_of(did).instantiate_identity().skip_norm_wip();
                    let mut f: Vec<(&str, String)> = vec![("path", esc(&cx.path(did))), ("ty", cx.ty(ty, env)), ("span", cx.span(tcx.def_span(did)))];
                    if ty.is_integral() || ty.is_bool() {
                        if let Ok(cv) = tcx.const_eval_poly(did) {
                            if let Some(si) = cv.try_to_scalar_int() {
                                let bits = si.to_bits(si.size());
                                let v = if ty.is_signed() { format!("{}", si.size().sign_extend(bits) as i128) } else { format!("{}", bits) };
                                f.push(("v", v));
                            }
                        }
                    }
                    consts.push(obj(f));
                }
                _ => {}
            }
        }
        // files read by rustc for this crate
        let sm = tcx.sess.source_map();
        let mut files = vec![];
        for sf in sm.files().iter() {
            if sf.cnum == LOCAL_CRATE {
                files.push(esc(&format!("{}", sf.name.prefer_local_unconditionally())));
            }
        }
        let mut cfgs = vec![];
        for (k, v) in tcx.sess.config.iter() {
            if k.as_str() == "feature" {
                if let Some(v) = v {
                    cfgs.push(esc(v.as_str()));
                }
            }
        }
        let check_cfg_test = tcx.sess.config.iter().any(|(k, _)| k.as_str() == "test");
        let doc = obj(vec![
            ("crate", esc(&cname)),
            ("features", arr(cfgs)),
            ("cfg_test", jbool(check_cfg_test)),
            ("source_files", arr(files)),
            ("adts", arr(adts)),
            ("consts", arr(consts)),
            ("bodies", arr(bodies)),
        ]);
        let suffix = if check_cfg_test { ".test" } else { "" };
        let path = format!("{}/{}{}.json", out_dir, cname, suffix);
        let _ = std::fs::create_dir_all(&out_dir);
        std::fs::write(&path, doc).expect("mir2json: cannot write fact file");
        Compilation::Continue
    }
}

fn main() {
    let mut args: Vec<String> = std::env::args().collect();
    // RUSTC_WRAPPER protocol: argv[1] is the path of the real rustc.
    if args.len() > 1 && (args[1].ends_with("rustc") || args[1].contains("/rustc")) {
        args.remove(1);
    }
    rustc_driver::run_compiler(&args, &mut Cb);
}
